"""C09 — the deps log survives torn writes, restarts and compaction (DESIGN 5.9)."""
import os
from facts import AnalysisBroken
from model import (dstr, strip, fact_holds, mentions_field, mentions_call, mentions_var,
                   const_value, walk, norm_cond, _split_composite)
from rules import (flush_succeeded_at, guarded, calls_to, field_writes, who_may_write, full_range, loops_over,
                   every_iteration_passes, basename, origins, is_var, is_enum, lastname,
                   dominated_by, reject_if, must_pass, deep_resolve, skip_conditions_exact,
                   header_iff_empty, linear)
from bounds import bounds, upper_by_fact, INF


def nodes_size(d):
    return 'DepsLog::nodes_.size()' in dstr(d)


def value_written(f, e):
    """What an fwrite(&x, ...) event writes: the reaching definition of x (same block, backwards),
    else the single definition of x, else the argument itself."""
    a = strip(e['args'][0])
    if isinstance(a, dict) and a.get('k') == 'un' and a['op'] == '&':
        v = strip(a['e'])
        if isinstance(v, dict) and v.get('k') == 'var':
            for x in reversed(f.blocks[e['_b']]['ev'][:e['_i']]):
                if x['k'] == 'decl' and x['n'] == v['n'] and x.get('init') is not None:
                    return x['init']
                if x['k'] == 'asg' and is_var(v['n'])(x['l']):
                    if x['op'] == '=':
                        return x.get('r')
                    return {'k': 'bin', 'op': x['op'].rstrip('='), 'l': v, 'r': x.get('r')}
            sd = f.single_def(v['n'])
            if sd is not None:
                return sd
            # dominating definitions in other blocks (straight-line code)
            cands = [x for x in f.events() if ((x['k'] == 'decl' and x['n'] == v['n']) or
                                               (x['k'] == 'asg' and is_var(v['n'])(x['l']))) and f.dominates_ev(x, e)]
            if cands:
                x = min(cands, key=lambda y: (y['_b'], -y['_i']))
                if x['k'] == 'asg' and x['op'] != '=':
                    return {'k': 'bin', 'op': x['op'].rstrip('='), 'l': v, 'r': x.get('r')}
                return x.get('init') if x['k'] == 'decl' else x.get('r')
            return v
        return v
    return a


def _failure_stores(load):
    """The stores that mark the scan of the log as failed: a constant written to a status local (a bool flag such as
    `read_failed = true`, or one variable of an enumeration) that differs from the constant the local was declared with."""
    inits = {e['n']: const_value(e.get('init')) for e in load.events('decl') if e.get('init') is not None and const_value(e.get('init')) is not None
             and e.get('tk') in ('bool', 'enum', 'int')}
    out = []
    for e in load.events('asg'):
        l = strip(e['l'])
        if e.get('op') == '=' and isinstance(l, dict) and l.get('k') == 'var' and l['n'] in inits:
            v = const_value(e.get('r'))
            if v is not None and v != inits[l['n']] and l['n'].split('#')[0] not in ('is_deps',):
                out.append((e, l['n'], v))
    return out


def ordered(f, evs):
    """events sorted in CFG (dominance) order: earlier first."""
    out = list(evs)
    # by reachability, not by block numbers (inlined code gets fresh, larger numbers): an event comes after every event of
    # the list that can run before it and cannot run after it
    def before(a, b):
        return f.ev_reaches(a, b) and not f.ev_reaches(b, a)
    allev = list(out)
    out.sort(key=lambda e: (sum(1 for x in allev if x is not e and before(x, e)), -e['_b'], e['_i']))
    return out


def run(ctx):
    prog = ctx.prog
    R = ctx.rule
    load = prog.fn('DepsLog::Load')
    rd = [f for f in prog.fns('DepsLog::RecordDeps') if len(f.params) == 4][0]
    rid = prog.fn('DepsLog::RecordId')
    ow = prog.fn('DepsLog::OpenForWriteIfNeeded')
    kmax = prog.global_('kMaxRecordSize').get('cv')
    if kmax is None:
        raise AnalysisBroken('kMaxRecordSize has no constant value')

    rule_tb1(ctx, 'C09.TB1')

    # ---- X1: clean EOF only at a record boundary -------------------------------------------
    R('C09.X1', 'X', 'a short read ends the load successfully without truncation only if nothing '
      'was consumed since the last committed offset (ftell == offset); every other short read or '
      'malformed record passes Truncate(path, offset) before the success return')
    def is_trunc(x):
        return x['k'] == 'call' and x.get('name') == 'Truncate' and mentions_var(x.get('args'), 'offset')
    def boundary_edge(b, i, s):
        ef = load.edge_fact(b, i)
        if ef and ef[1] is True and 'ftell(f)' in ef[0] and 'offset' in ef[0] and '==' in ef[0]:
            return False
        return True
    n = 0
    for bid, b in load.blocks.items():
        for i, s in enumerate(b['succ']):
            ef = load.edge_fact(bid, i)
            if ef and ef[1] is True and 'fread(' in ef[0] and '< 1' in ef[0] and s is not None and \
                    bid in load.reachable_from(63 if 63 in load.blocks else bid):
                n += 1
                r = load.find_path(None, lambda x: x['k'] == 'ret' and is_enum('LOAD_SUCCESS')(x.get('e')), from_succ=s,
                                   is_blocker=lambda x: is_trunc(x) or x['k'] == 'ret', edge_ok=boundary_edge,
                                   init_facts=[(ef[0], ef[1])] + _const_inits(load))
                ctx.check('C09.X1', r is None, load.name, 'short-read:accepted-without-truncate:%s' % ef[0][:40],
                          'src/deps_log.cc:%s' % load.term(bid)['line'],
                          'after `%s` the load succeeds only through Truncate(path, offset) or at a record boundary' % ef[0][:50],
                          witness=None if r is None else {'blocks': r[0]})
    for e, vname, val in _failure_stores(load):
        if True:
            n += 1
            r = load.find_path(e, lambda x: x['k'] == 'ret' and is_enum('LOAD_SUCCESS')(x.get('e')),
                               is_blocker=lambda x: is_trunc(x) or x['k'] == 'ret',
                               init_facts=[(('const', vname), val)])
            ctx.check('C09.X1', r is None, load.name, 'read_failed:success-without-truncate', load.where(e),
                      'once the scan is marked as failed (%s = %s), success is reported only after Truncate(path, offset)' % (vname, val),
                      witness=None if r is None else {'blocks': r[0]})
    # once bytes of a record have been read (a successful fread), the loop is left towards success only by accepting
    # the record (offset advances past it) or through Truncate(path, offset): "looks like the end" is not a third way -
    # what lies behind the last accepted record stays in the file and the next session appends after it
    nread = 0
    for bid, b in load.blocks.items():
        for i, s in enumerate(b['succ']):
            if s is None:
                continue
            efs = load.edge_facts(bid, i)
            if not any(pol is False and 'fread(' in k and '< 1' in k for k, pol, a in efs):
                continue
            nread += 1
            r = load.find_path(None, lambda x: x['k'] == 'ret' and is_enum('LOAD_SUCCESS')(x.get('e')), from_succ=s,
                               is_blocker=lambda x: is_trunc(x) or x['k'] == 'ret' or (x['k'] == 'asg' and is_var('offset')(x['l'])),
                               init_facts=[(k, pol) for k, pol, a in load.edge_facts(bid, i, all=True)] + _const_inits(load))
            ctx.check('C09.X1', r is None, load.name, 'record-bytes-read:success-without-commit-or-truncate',
                      'src/deps_log.cc:%s' % load.term(bid)['line'],
                      'after a successful fread the load succeeds only by accepting the record (offset advances) or through Truncate(path, offset)',
                      witness=None if r is None else {'blocks': r[0]})
    ctx.check('C09.X1', nread >= 2, load.name, 'record-reads', load.loc, '%d successful-read edges in the record loop' % nread)
    # a path record whose path is empty once the padding is stripped is malformed (1-3 NUL bytes with a matching
    # checksum): the node is created only where the stripped length is known to be positive
    for e in load.calls('State::GetNode'):
        def positive(a):
            a = strip(a)
            if not (isinstance(a, dict) and a.get('k') == 'bin' and mentions_var(a, 'path_size')):
                return None
            if a['op'] == '==' and const_value(a['r']) == 0 and is_var('path_size')(a['l']):
                return False            # wanted polarity of `path_size == 0`
            if a['op'] == '<' and const_value(a['l']) == 0 and is_var('path_size')(a['r']):
                return True             # wanted polarity of `0 < path_size`
            return None
        facts = load.facts_at(e)
        ok = any(positive(atom) is not None and positive(atom) == pol for k, (pol, atom) in facts.items())
        ctx.check('C09.X1', ok, load.name, 'path-record:empty-path-accepted', load.where(e),
                  'a node is created for a path record only when the path left after stripping the padding is not empty')
    ctx.floor('C09.X1', 11)

    # ---- O3: truncate offset discipline --------------------------------------------------------
    R('C09.O3', 'O', 'offset advances only after a record was accepted completely (last event of '
      'the loop body, unreachable once read_failed is set) and by exactly the record size')
    offs = [e for e in load.events('asg') if is_var('offset')(e['l'])]
    ctx.check('C09.O3', len(offs) == 1 and offs[0]['op'] == '+=', load.name, 'offset:writers', load.loc, 'one `offset +=` site')
    for e in offs:
        r = dstr(e.get('r')).replace(' ', '')
        ctx.check('C09.O3', r in ('(size+sizeof=4)', '(sizeof=4+size)'), load.name, 'offset:increment', load.where(e),
                  'offset grows by size + sizeof(size): %s' % dstr(e.get('r')))
        later = [x for x in load.blocks[e['_b']]['ev'][e['_i'] + 1:] if x['k'] in ('call', 'asg')]
        ctx.check('C09.O3', not later, load.name, 'offset:not-last', load.where(e), 'offset += is the last event of the loop body')
        for x, vname, val in _failure_stores(load):
            if True:
                r = load.find_path(x, lambda y: y is e, init_facts=[(('const', vname), val)])
                ctx.check('C09.O3', r is None, load.name, 'offset:advanced-after-failure', load.where(x),
                          'offset is not advanced after the scan was marked as failed (%s = %s)' % (vname, val))
        # node / deps tables are updated before offset advances only for accepted records (X2)
    ctx.floor('C09.O3', 6)

    # ---- X2: id / checksum mismatch => failure ---------------------------------------------------
    R('C09.X2', 'X', 'a path record whose checksum does not match the next id, or whose node '
      'already has an id, stops the load (concurrent writers)')
    def accepted(x):
        return x['k'] == 'call' and x.get('name') == 'Node::set_id'

    def id_check(a):
        # `<next id> == <id announced by the checksum>`: one side comes from nodes_.size(), the other from a complement
        # (whatever the locals are called and wherever the test lives)
        a = strip(a)
        if not (isinstance(a, dict) and a.get('k') == 'bin' and a.get('op') == '=='):
            return False
        l, r = dstr(deep_resolve(load, a['l'])), dstr(deep_resolve(load, a['r']))
        sz = lambda t: 'DepsLog::nodes_' in t and 'size()' in t
        return (sz(l) and '~' in r) or (sz(r) and '~' in l)
    n = 0
    for bid, b in load.blocks.items():
        for i, s in enumerate(b['succ']):
            if s is None:
                continue
            for ef in load.edge_facts(bid, i):
                k = ef[0].replace(' ', '')
                if not ((id_check(ef[2]) and ef[1] is False) or ('Node::id_<0' in k and ef[1] is False)):
                    continue
                n += 1
                r = load.find_path(None, accepted, from_succ=s, init_facts=[(ef[0], ef[1])],
                                   is_blocker=lambda x: x['k'] == 'asg' and is_var('offset')(x['l']))
                ctx.check('C09.X2', r is None, load.name, 'id-mismatch:accepted:%s' % k[:30], 'src/deps_log.cc:%s' % load.term(bid)['line'],
                          'a record failing `%s` is not accepted' % ef[0][:50])
    # ... and the node table is only touched once both tests have passed (not before them)
    accept_sites = [x for x in load.events('call') if accepted(x) or
                    (lastname(x.get('name')) == 'push_back' and mentions_field(x.get('recv'), 'DepsLog::nodes_'))]
    for x in accept_sites:
        fs = load.facts_at(x)
        ok = fact_holds(fs, id_check, True) and \
            (fact_holds(fs, lambda a: 'Node::id_<0' in dstr(a).replace(' ', ''), True) or
             any(accepted(y) and y is not x and load.dominates_ev(y, x) for y in accept_sites))  # set_id itself ends "id < 0"
        ctx.check('C09.X2', ok, load.name, 'id-table-updated-before-checks:%s' % lastname(x.get('name')), load.where(x),
                  'the path record is entered into the node table only after the checksum and the '
                  'duplicate-id test passed')
    if len(accept_sites) < 2:
        ctx.violation('C09.X2', load.name, 'id-table:sites', load.loc, 'set_id / nodes_.push_back sites missing in Load')
    if n < 2:
        ctx.violation('C09.X2', load.name, 'id-checks:absent', load.loc, 'checksum / duplicate-id tests missing (%d found)' % n)
    # the two sides of that test, resolved through the locals that name them: exactly `~<stored checksum>` and
    # exactly `nodes_.size()` (nothing added to either)
    def uncast(d):
        d = strip(d)
        while isinstance(d, dict) and d.get('k') in ('cast', 'paren') and d.get('e') is not None:
            d = strip(d['e'])
        return d
    sides = []
    for bid, b in load.blocks.items():
        for i, s_ in enumerate(b['succ']):
            for ef in load.edge_facts(bid, i):
                if id_check(ef[2]):
                    a = strip(ef[2])
                    sides.append((uncast(deep_resolve(load, a['l'])), uncast(deep_resolve(load, a['r']))))
    comp = [x for pr in sides for x in pr if '~' in dstr(x)]
    nxt = [x for pr in sides for x in pr if 'DepsLog::nodes_' in dstr(x) and '~' not in dstr(x)]
    ctx.check('C09.X2', bool(comp) and all(isinstance(x, dict) and x.get('k') == 'un' and x.get('op') == '~' for x in comp), load.name,
              'checksum:complement', load.loc, 'expected id is the complement of the stored checksum: %s' % sorted({dstr(x)[:60] for x in comp}))
    ctx.check('C09.X2', bool(nxt) and all(isinstance(x, dict) and x.get('k') == 'call' and lastname(x.get('name')) == 'size' and
                                          mentions_field(x.get('recv'), 'DepsLog::nodes_') for x in nxt), load.name, 'id:next', load.loc,
              'the id of a path record is nodes_.size(): %s' % sorted({dstr(x)[:60] for x in nxt}))
    # ids are handed out one per node: RecordId(n) is called only where n->id() < 0 is known for that very n
    # (collecting the nodes first and recording them later gives a node that occurs twice two ids)
    nrid = 0
    for f2, e2 in calls_to(prog, 'DepsLog::RecordId'):
        nrid += 1
        key = dstr(strip(e2['args'][0])).replace(' ', '')
        fs2 = f2.facts_at(e2)
        okr = any(pol is True and isinstance(strip(a), dict) and strip(a).get('k') == 'bin' and strip(a)['op'] == '<' and
                  const_value(strip(a)['r']) == 0 and mentions_field(a, 'Node::id_') and key in dstr(a).replace(' ', '') for k2, (pol, a) in fs2.items())
        ctx.check('C09.X2', okr, f2.name, 'RecordId:id-not-known-unassigned', f2.where(e2),
                  'RecordId(%s) runs under the fact %s->id() < 0' % (key[:40], key[:40]))
    ctx.check('C09.X2', nrid >= 2, 'DepsLog::RecordId', 'RecordId:sites', 'src/deps_log.cc', '%d RecordId call sites' % nrid)
    ctx.floor('C09.X2', 9)

    # ---- TA1: layout agreement writer / reader ---------------------------------------------------
    R('C09.TA1', 'TA', 'the word layout written by RecordDeps / RecordId agrees with what Load reads: '
      'high-bit record kind, id, mtime low/high halves, ids; path, padding <= 3, complement checksum')
    fw = ordered(rd, [e for e in rd.calls('fwrite')])
    vals = [dstr(deep_resolve(rd, value_written(rd, e))) for e in fw]
    ctx.table('C09.TA1.RecordDeps.words', vals)
    ok = len(fw) == 5
    ctx.check('C09.TA1', ok, rd.name, 'RecordDeps:fwrite-count', rd.loc, 'RecordDeps writes size, id, 2 mtime halves, ids (%d fwrites)' % len(fw))
    if ok:
        # word 0: size | 0x80000000
        hb = [e for e in rd.events('asg') if is_var('size')(e['l']) and e['op'] == '|=']
        ctx.check('C09.TA1', len(hb) == 1 and const_value(hb[0].get('r')) == 0x80000000, rd.name, 'writer:high-bit', rd.loc,
                  'deps records set bit 31 of the size word')
        isd = load.single_def('is_deps')
        ctx.check('C09.TA1', isd is not None and '>> 31' in dstr(isd), load.name, 'reader:high-bit', load.loc,
                  'the reader tests bit 31: %s' % dstr(isd))
        mask = [e for e in load.events('asg') if is_var('size')(e['l']) and mentions_var(e.get('r'), 'size') and '&' in dstr(e.get('r'))]
        ctx.check('C09.TA1', len(mask) == 1 and const_value(strip(mask[0]['r'])['r']) == 0x7FFFFFFF, load.name, 'reader:size-mask', load.loc,
                  'the reader masks the size with the complement of the kind bit')
        # word 1: id of the output; reader: out_id = deps_data[0]
        ctx.check('C09.TA1', 'Node::id' in vals[1] or 'node' in vals[1], rd.name, 'writer:word1', rd.where(fw[1]),
                  'word 1 is the output\'s id: %s' % vals[1])
        oid = load.single_def('out_id')
        ctx.check('C09.TA1', oid is not None and dstr(strip(oid)) == 'deps_data[0]', load.name, 'reader:word1', load.loc,
                  'the reader takes the output id from word 0 after the size: %s' % dstr(oid))
        # words 2,3: low then high
        ctx.check('C09.TA1', '4294967295' in vals[2] and '>> 32' not in vals[2] and '>> 32' in vals[3], rd.name, 'writer:mtime-halves',
                  rd.where(fw[2]), 'mtime is written low half first, then high half: %s | %s' % (vals[2][:50], vals[3][:50]))
        mt = [e for e in load.stores() if is_var('mtime')(e['l']) and mentions_var(deep_resolve(load, e.get('r')), 'deps_data')]
        rr = deep_resolve(load, deep_resolve(load, mt[0].get('r'))) if mt else None
        s = dstr(rr).replace(' ', '') if mt else ''
        hi2 = any(x.get('k') == 'bin' and x['op'] == '<<' and const_value(x['r']) == 32 and dstr(strip(x['l'])).replace(' ', '') == 'deps_data[2]'
                  for x in walk(rr)) if mt else False
        lo_shifted = any(x.get('k') == 'bin' and x['op'] == '<<' and dstr(strip(x['l'])).replace(' ', '') == 'deps_data[1]' for x in walk(rr)) if mt else True
        lo1 = any(dstr(strip(x)).replace(' ', '') == 'deps_data[1]' for x in walk(rr) if isinstance(x, dict)) if mt else False
        ctx.check('C09.TA1', hi2 and lo1 and not lo_shifted, load.name, 'reader:mtime-halves',
                  load.loc, 'the reader combines word 2 as high half and word 1 as low half: %s' % s[:90])
        # header word count: writer 4 * (1 + 2 + n) ; reader size/4 - 3
        sz = rd.single_def('size') or [e.get('init') for e in rd.events('decl') if e['n'] == 'size'][0]
        hw = dstr(strip(sz)).replace(' ', '')
        adv = sum(const_value(x.get('r')) or 0 for x in load.events('asg') if is_var('deps_data')(x['l']) and x['op'] == '+=')
        dc = load.single_def('deps_count')
        ctx.check('C09.TA1', hw == '(4*((1+2)+node_count))' and adv == 3 and dc is not None and
                  dstr(strip(dc)).replace(' ', '') == '((size/4)-3)', rd.name, 'header-words', rd.loc,
                  'writer size = %s; reader skips %d words and computes %s' % (hw, adv, dstr(dc)))
        full = [l for l in [{'x': 1}]]
        # ids loop covers all nodes
        for bid, b in rd.blocks.items():
            t = b.get('term')
            if t and t['kind'] == 'for' and fw[4]['_b'] in rd.reachable_from(b['succ'][0]) | {b['succ'][0]} and \
                    bid in rd.reachable_from(fw[4]['_b']):
                c = dstr(rd.eff_cond(bid)).replace(' ', '')
                ctx.check('C09.TA1', 'node_count' in c and '<' in c, rd.name, 'writer:ids-loop', 'src/deps_log.cc:%s' % t['line'],
                          'ids of all node_count dependencies are written (%s)' % c)
    fw2 = ordered(rid, [e for e in rid.calls('fwrite')])
    vals2 = [dstr(deep_resolve(rid, value_written(rid, e))) for e in fw2]
    ctx.table('C09.TA1.RecordId.words', vals2)
    ctx.check('C09.TA1', len(fw2) == 4, rid.name, 'RecordId:fwrite-count', rid.loc, 'RecordId writes size, path, padding, checksum')
    if len(fw2) == 4:
        v0 = dstr(strip(value_written(rid, fw2[0]))).replace(' ', '')
        ctx.check('C09.TA1', v0 == '((path_size+padding)+4)', rid.name, 'RecordId:size', rid.where(fw2[0]),
                  'size = path_size + padding + 4: %s' % v0)
        ctx.check('C09.TA1', 'Node::path' in vals2[1] or 'path_' in vals2[1], rid.name, 'RecordId:path', rid.where(fw2[1]), 'the path bytes follow')
        pad = rid.single_def('padding')
        ctx.check('C09.TA1', pad is not None and dstr(strip(pad)).replace(' ', '') == '((4-(path_size%4))%4)', rid.name, 'RecordId:padding', rid.loc,
                  'padding aligns the record to 4 bytes (<= 3 NULs): %s' % dstr(pad))
        ctx.check('C09.TA1', vals2[3].startswith('(~'), rid.name, 'RecordId:checksum', rid.where(fw2[3]),
                  'the checksum is the complement of the id: %s' % vals2[3])
        # reader strips at most 3 NULs
        decs = [e for e in load.events('asg') if is_var('path_size')(e['l']) and e['op'] in ('--', '-=')]
        in_loop = [e for e in decs if e['_b'] in load.reachable_from(e['_b'])]
        bound3 = any(b.get('term') and '< 3' in dstr(b['term'].get('cond')) for b in load.blocks.values())
        # every enclosing loop of these sites is the record loop (`for (;;)`); an inner counting loop
        # must be bounded by 3, straight-line code must have exactly 3 strip sites
        ok = (len(decs) == 3 and not bound3) or (len(decs) == 1 and bound3)
        ctx.check('C09.TA1', ok, load.name, 'reader:padding-strip', load.loc,
                  'the reader strips at most 3 padding NULs (the writer pads to a 4-byte boundary): '
                  '%d strip site(s), counting loop bounded by 3: %s' % (len(decs), bound3))
    sigw = [e for e in ow.calls('fwrite')]
    ctx.check('C09.TA1', len(sigw) == 2 and 'kFileSignature' in dstr(sigw[0]['args'][0]) + dstr(sigw[1]['args'][0]) and
              'kCurrentVersion' in dstr(sigw[0]['args'][0]) + dstr(sigw[1]['args'][0]), ow.name, 'header:writer', ow.loc,
              'the file starts with kFileSignature and kCurrentVersion')
    header_iff_empty(ctx, 'C09.TA1', ow, lambda x: x.get('name') == 'fwrite' and mentions_var(x.get('args'), 'kFileSignature'),
                     'DepsLog::file_')
    hdr = [e for e in load.calls('memcmp') if 'kFileSignature' in dstr(e.get('args'))]
    ctx.check('C09.TA1', len(hdr) == 1 and any('kCurrentVersion' in dstr(e.get('init')) for e in load.events('decl')), load.name, 'header:reader', load.loc,
              'the reader checks the same signature and version constants')
    ctx.floor('C09.TA1', 16)

    # ---- O1: bounded record ---------------------------------------------------------------------------
    R('C09.O1', 'O', 'a record larger than kMaxRecordSize is refused before anything is written; '
      'the stdio buffer holds a whole record (setvbuf _IOFBF kMaxRecordSize+1 before the first '
      'write); the reader refuses larger sizes before reading')
    for f in (rd, rid):
        for e in f.calls('fwrite'):
            reject = lambda b, i, s, f=f: not (f.edge_fact(b, i) and 'kMaxRecordSize < size' in f.edge_fact(b, i)[0] and
                                               f.edge_fact(b, i)[1] is False)
            r = f.find_path(None, lambda x: x is e, from_succ=f.entry, edge_ok=reject, sensitive=False)
            ctx.check('C09.O1', r is None, f.name, 'write-without-size-check', f.where(e),
                      'fwrite in %s is reached only after `size > kMaxRecordSize` was excluded' % f.name)
            dominated_by(ctx, 'C09.O1', f, e, lambda x: x['k'] == 'call' and x.get('name') == 'DepsLog::OpenForWriteIfNeeded',
                         'the file is opened (and buffered) before a record is written', 'write-before-open')
    sv = [e for e in ow.calls('setvbuf')]
    ok = len(sv) == 1 and const_value(sv[0]['args'][3]) == kmax + 1
    ctx.check('C09.O1', ok, ow.name, 'setvbuf:size', ow.loc, 'setvbuf(..., kMaxRecordSize + 1): full buffering of one record')
    for e in ow.calls('fwrite'):
        ctx.check('C09.O1', bool(sv) and ow.dominates_ev(sv[0], e), ow.name, 'setvbuf:after-write', ow.where(e), 'setvbuf precedes the first write')
    fo = [e for e in ow.calls('fopen')]
    ctx.check('C09.O1', len(fo) == 1 and 'a' in dstr(fo[0]['args'][1]), ow.name, 'open-mode', ow.loc, 'the deps log is opened in append mode')
    ctx.floor('C09.O1', 10)

    # ---- O2: record, flush, then memory ---------------------------------------------------------
    R('C09.O2', 'O', 'in RecordDeps / RecordId all fwrites of a record precede one fflush, and the '
      'in-memory tables (set_id, nodes_.push_back, UpdateDeps) are updated only after it succeeded')
    for f, mem in ((rd, ('DepsLog::UpdateDeps',)), (rid, ('Node::set_id', 'push_back'))):
        fl = [e for e in f.calls('fflush')]
        ctx.check('C09.O2', len(fl) == 1, f.name, 'fflush:count', f.loc, 'one fflush per record')
        if not fl:
            continue
        for e in f.calls('fwrite'):
            ctx.check('C09.O2', f.ev_reaches(e, fl[0]) and not f.ev_reaches(fl[0], e), f.name, 'fwrite-after-flush', f.where(e),
                      'every fwrite of the record precedes the fflush')
        for e in f.events('call'):
            if e.get('name') in mem or lastname(e.get('name')) in mem:
                if lastname(e.get('name')) == 'push_back' and not mentions_field(e.get('recv'), 'DepsLog::nodes_'):
                    continue
                if flush_succeeded_at(f, e):
                    ctx.inst('C09.O2', f.where(e), 'memory is updated only where the flush is known to have succeeded - `%s` in %s' % (
                        (e.get('src') or '')[:60], f.name))
                else:
                    dominated_by(ctx, 'C09.O2', f, e, lambda x: x is fl[0], 'memory is updated after the flush',
                                 'memory-before-flush:%s' % lastname(e.get('name')))
                guarded(ctx, 'C09.O2', f, e, lambda a: mentions_call(a, 'fflush'), None,
                        'and only when the flush succeeded', construct='memory-after-failed-flush:%s' % lastname(e.get('name')))
    ctx.floor('C09.O2', 12)

    # ---- N2: the "nothing new" shortcut compares every element ----------------------------------
    R('C09.N2', 'N', 'RecordDeps skips writing only if mtime, count and every dependency are '
      'unchanged; byte counts of memcmp/memcpy over pointer arrays are scaled by the element size')
    cmp_loop = False
    for bid, b in rd.blocks.items():
        ef0 = rd.edge_fact(bid, 0) if b['succ'] else None
        if ef0 and 'DepsLog::Deps::nodes[' in ef0[0] and 'nodes[' in ef0[0].split('==')[-1]:
            # the comparison sits in a loop that makes node_count trips from 0 (no other bound)
            for hb, blk in rd.blocks.items():
                t = blk.get('term')
                if t and t['kind'] in ('for', 'while') and len(blk['succ']) == 2 and bid in rd.reachable_from(blk['succ'][0]) | {blk['succ'][0]} and \
                        hb in rd.reachable_from(bid):
                    c = strip(t.get('cond'))
                    if isinstance(c, dict) and c.get('k') == 'bin' and c['op'] in ('<', '!=') and strip(c['l']).get('k') == 'var':
                        lv = strip(c['l'])['n']
                        inits = [x.get('init') for x in rd.events('decl') if x['n'] == lv and x.get('init') is not None]
                        if len(inits) == 1 and linear(rd, {'k': 'bin', 'op': '-', 'l': c['r'], 'r': inits[0]}) == {'node_count': 1}:
                            cmp_loop = True
    mc = [e for f in (rd,) for e in f.calls() if e.get('name') in ('memcmp', 'memcpy', 'memmove')]
    for e in mc:
        a0 = strip(e['args'][0])
        ty = (a0.get('ty') or '') if isinstance(a0, dict) else ''
        scaled = any(x.get('k') == 'sizeof' for x in walk(e['args'][2])) or \
            any(x.get('k') == 'bin' and x['op'] == '*' for x in walk(e['args'][2]))
        ctx.check('C09.N2', scaled or 'char' in ty or 'void' in ty, rd.name, '%s:unscaled-size' % e['name'], rd.where(e),
                  '%s over `%s` uses a byte count scaled by the element size' % (e['name'], ty))
        cmp_loop = cmp_loop or scaled
    # third idiom: std::equal / std::mismatch over [nodes, nodes + node_count) against the recorded array
    for e in rd.events('call'):
        ln = lastname(e.get('name') or '').split('<')[0]
        if ln in ('equal', 'mismatch') and len(e.get('args') or []) >= 3:
            a = [dstr(deep_resolve(rd, x)).replace(' ', '') for x in e['args'][:3]]
            span = ('nodes' in a[0] and a[1].replace('(', '').replace(')', '') in (a[0].replace('(', '').replace(')', '') + '+node_count',)) or \
                ('node_count' in a[1] and a[0] in a[1])
            other = 'DepsLog::Deps::nodes' in a[2] or 'DepsLog::Deps::nodes' in a[0]
            cmp_loop = cmp_loop or (span and other)
    ctx.check('C09.N2', cmp_loop, rd.name, 'unchanged-check:not-elementwise', rd.loc,
              'the unchanged-record shortcut compares every dependency pointer (element loop, scaled memcmp or std::equal over node_count elements)')
    for e in rd.events('ret'):
        if const_value(e.get('e')) == 1 and not any(x['k'] == 'call' and x.get('name') == 'fflush' for x in rd.events('call') if rd.dominates_ev(x, e)):
            facts = rd.facts_at(e)
            ctx.check('C09.N2', fact_holds(facts, is_var('made_change'), False), rd.name, 'early-success:guard', rd.where(e),
                      'success without writing only when nothing changed')
    mcw = [(e, e.get('r')) for e in rd.events('asg') if is_var('made_change')(e['l'])]
    ctx.check('C09.N2', len(mcw) >= 2 and all(const_value(r) == 1 or fact_holds(rd.facts_at(e), is_var('made_change'), False) for e, r in mcw),
              rd.name, 'made_change:writers', rd.loc,
              'made_change is never reset: every write stores true or happens while it is still false (%d sites)' % len(mcw))
    for k in ('DepsLog::Deps::mtime', 'DepsLog::Deps::node_count'):
        ok = any(k in dstr(b['term'].get('cond')) for b in rd.blocks.values() if b.get('term'))
        ctx.check('C09.N2', ok, rd.name, 'unchanged-check:%s' % k.split('::')[-1], rd.loc, 'the shortcut compares %s' % k.split('::')[-1])
    ctx.floor('C09.N2', 5)

    # ---- W1: recompaction --------------------------------------------------------------------------
    R('C09.W1', 'W', 'recompaction starts from a fresh temporary file, resets all ids, re-records '
      'every entry except those without deps or whose output no longer uses deps, swaps the tables, '
      'then replaces the log')
    rp = prog.fn('DepsLog::Recompact')
    opw = [e for e in rp.calls('DepsLog::OpenForWrite')]
    unl = [e for e in rp.calls() if e.get('name') in ('platformAwareUnlink', 'unlink')]
    rec = [e for e in rp.calls('DepsLog::RecordDeps')]
    rep = [e for e in rp.calls('ReplaceContent')]
    ctx.check('C09.W1', len(opw) == 1 and len(rec) == 1 and len(rep) == 1, rp.name, 'Recompact:shape', rp.loc,
              'OpenForWrite(temp), RecordDeps, ReplaceContent present')
    if opw and rec and rep:
        ctx.check('C09.W1', bool(unl) and rp.dominates_ev(unl[0], opw[0]) and 'temp_path' in dstr(unl[0].get('args')), rp.name,
                  'Recompact:stale-temp-not-removed', rp.where(opw[0]),
                  'a left-over temporary file is removed before the new log is opened for append')
        ctx.check('C09.W1', 'new_log' in dstr(rec[0].get('recv')) and 'new_log' in dstr(opw[0].get('recv')), rp.name,
                  'Recompact:wrong-log', rp.where(rec[0]), 'entries are re-recorded into the new log object')
        resets = [e for e in rp.calls('Node::set_id') if const_value(e['args'][0]) == -1]
        ctx.check('C09.W1', len(resets) == 1 and rp.dominates_ev(resets[0], rec[0]) or
                  (len(resets) == 1 and rp.ev_reaches(resets[0], rec[0]) and not rp.ev_reaches(rec[0], resets[0])),
                  rp.name, 'Recompact:ids-not-reset', rp.loc, 'all ids are reset before anything is re-recorded')
        ls = [l for l in loops_over(rp, 'DepsLog::nodes_') if l['style'] in ('iterator', 'range')]
        ok = len(ls) == 1 and ls[0]['full'] and resets and resets[0]['_b'] in rp.reachable_from(ls[0]['body']) | {ls[0]['body']}
        ctx.check('C09.W1', bool(ok), rp.name, 'Recompact:ids-reset-partially', rp.loc, 'ids of all known nodes are reset (full loop over nodes_)')
        for bid, b in rp.blocks.items():
            t = b.get('term')
            if t and t['kind'] == 'for' and 'old_id' in dstr(t.get('cond')):
                c = dstr(rp.eff_cond(bid))
                ctx.check('C09.W1', 'DepsLog::deps_.size()' in c, rp.name, 'Recompact:loop-bound', 'src/deps_log.cc:%s' % t['line'],
                          'every slot of deps_ is visited (%s)' % c)
                loop = {'header': bid, 'body': b['succ'][0], 'line': t['line'], 'bound': c}
                skip_conditions_exact(ctx, 'C09.W1', rp, loop, lambda x: x is rec[0],
                                      [(lambda a: is_var('deps')(a), False),
                                       (lambda a: mentions_call(a, 'DepsLog::IsDepsEntryLiveFor') or
                                        ('"deps"' in dstr(a) and 'Node::in_edge' in dstr(a)), False)],
                                      'an entry is dropped only if it is empty or no longer live', 'Recompact:extra-skip')
        a = [deep_resolve(rp, x) for x in rec[0]['args']]
        ctx.check('C09.W1', 'DepsLog::Deps::mtime' in dstr(a[1]) and 'DepsLog::Deps::node_count' in dstr(a[2]) and
                  'DepsLog::Deps::nodes' in dstr(a[3]) and 'old_id' in dstr(a[0]), rp.name, 'Recompact:record-args', rp.where(rec[0]),
                  'the entry is re-recorded with its own node, mtime, count and nodes')
        sw = [e for e in rp.events('call') if lastname(e.get('name')) == 'swap']
        ctx.check('C09.W1', len(sw) == 2 and all(rp.dominates_ev(e, rep[0]) for e in sw), rp.name, 'Recompact:swap-order', rp.loc,
                  'deps_ and nodes_ are swapped with the new log before the file is replaced')
        cl = [e for e in rp.calls('DepsLog::Close') if 'new_log' in dstr(e.get('recv'))]
        ctx.check('C09.W1', bool(cl) and any(rp.dominates_ev(e, rep[0]) for e in cl), rp.name, 'Recompact:replace-before-close', rp.loc,
                  'the new log is closed before it replaces the old one')
    live = prog.fn('DepsLog::IsDepsEntryLiveFor')
    # every return of the predicate: true exactly under (producer present, deps binding not empty), stated over the
    # guard facts of the return and the conjuncts of a returned expression
    def kind(atom):
        a = dstr(deep_resolve(live, atom))
        if '"deps"' in a and 'GetBinding' in a and 'empty()' in a:
            return 'empty'
        if ('Node::in_edge' in a) and 'GetBinding' not in a:
            return 'producer'
        return None
    for e in live.events('ret'):
        known = []          # (kind, polarity, text)
        for k, (pol, atom) in live.facts_at(e).items():
            if isinstance(strip(atom), dict) and strip(atom).get('k') == 'var' and live.single_def(strip(atom)['n']) is not None:
                continue    # a named local: its initialiser is among the facts as well
            known.append((kind(atom), pol, k))
        v = const_value(e.get('e'))
        conj = []
        if v is None:
            at, pol = norm_cond(prog, deep_resolve(live, e.get('e')))
            parts = _split_composite(prog, at, pol) or [(dstr(at), pol, at)]
            conj = [(kind(a3), p3, k3) for k3, p3, a3 in parts]
        allk = known + conj
        extra = [t for kd, p, t in allk if kd is None]
        pos = {kd for kd, p, t in allk if (kd == 'producer' and p) or (kd == 'empty' and not p)}
        neg = {kd for kd, p, t in known if (kd == 'producer' and not p) or (kd == 'empty' and p)}
        if v is None:
            ok = not extra and not neg and pos == {'producer', 'empty'}
        elif v:
            ok = not extra and not neg and pos == {'producer', 'empty'}
        else:
            ok = not extra and bool(neg)
        ctx.check('C09.W1', ok, live.name, 'live:definition', live.where(e),
                  'an entry is live iff its node has a producer with a non-empty deps binding: `%s` under %s' %
                  ((e.get('src') or '')[:80], sorted(t for kd, p, t in known)))
    # a recompaction that failed has already reset (or partly reassigned) the ids of all nodes: the old log cannot be
    # appended to any more, OpenForWrite must fail
    ow = prog.fn('DepsLog::OpenForWrite')
    reject_if(ctx, 'C09.W1', ow, lambda a: mentions_call(a, 'DepsLog::Recompact'), False,
              'a failed recompaction fails OpenForWrite (no appending to the old log with reset ids)', 'OpenForWrite:recompact-failure-ignored')
    # Load: the later record of an output replaces the earlier one, unconditionally - every deps record that passed
    # validation reaches UpdateDeps before the next record is read
    for e in load.events('new'):
        if 'Deps' not in (e.get('ty') or ''):
            continue
        r = load.find_path(e, lambda x: x['k'] == 'call' and x.get('name') == 'fread', is_blocker=lambda x: x['k'] == 'call' and x.get('name') == 'DepsLog::UpdateDeps')
        ctx.check('C09.W1', r is None, load.name, 'Load:record-not-applied', load.where(e),
                  'a validated deps record always replaces what was loaded before for that output (UpdateDeps on every path)',
                  witness=None if r is None else {'blocks': r[0]})
    ctx.floor('C09.W1', 12)


def rule_tb1(ctx, RID):
    """TB1 (shared with C13): bounds of file-derived values in DepsLog::Load."""
    prog = ctx.prog
    R = ctx.rule
    load = prog.fn('DepsLog::Load')
    kmax = prog.global_('kMaxRecordSize').get('cv')
    # ---- TB1: file-derived indices and sizes ----------------------------------------------------
    R(RID, 'TB', 'in DepsLog::Load every value read from the file that is used as an index, an '
      'allocation size or a read size is bounded on both sides by guards on every path to the use')
    bufdecl = [e for e in load.events('decl') if e['n'] == 'buf']
    bufsz = None
    if bufdecl:
        import re
        m = re.search(r'\[(\d+)\]', bufdecl[0].get('ty', ''))
        bufsz = int(m.group(1)) if m else None
    ctx.check(RID, bufsz == kmax + 1, load.name, 'buf:size', load.loc,
              'the read buffer holds kMaxRecordSize + 1 bytes (%s vs %s)' % (bufsz, kmax + 1))
    n = 0
    # (1) fread(buf, size, ...)
    for e in load.calls('fread'):
        a0 = strip(e['args'][0])
        if isinstance(a0, dict) and a0.get('k') == 'var' and a0['n'] == 'buf':
            lo, hi = bounds(load, e, e['args'][1])
            n += 1
            ctx.check(RID, hi <= (bufsz or 0), load.name, 'fread:size-unbounded:%s' % dstr(e['args'][1]), load.where(e),
                      'fread into buf reads at most sizeof(buf) bytes (size in [%s, %s])' % (lo, hi))
    # (2) subscripts of vectors with file-derived ids  /  (3) raw buffer subscripts
    for e in load.events('call'):
        if e.get('op') == '[]' and mentions_field(e.get('recv'), 'DepsLog::nodes_'):
            idx = e['args'][0]
            n += 1
            si = strip(idx)
            if isinstance(si, dict) and si.get('k') == 'idx':
                # re-read of a buffer word validated by a preceding loop over the same range
                import re as _re
                norm = lambda t: _re.sub(r'[#@]\d+', '', t)
                key = norm(dstr(si))
                validated = [x for x in load.events('decl') if x.get('init') is not None and
                             norm(dstr(strip(x['init']))) == key and load.ev_reaches(x, e)]
                vname = validated[0]['n'] if validated else None
                # ... or by a loop that walks an iterator over the same words: `it = base; it != base + n; ++it` with
                # the re-read index bounded by the same n (std::all_of over [base, base + n) after desugaring)
                base = strip(si.get('b'))
                its = set()
                if isinstance(base, dict) and base.get('k') == 'var':
                    for x in load.events('decl'):
                        i0 = strip(x.get('init')) if x.get('init') is not None else None
                        if isinstance(i0, dict) and i0.get('k') == 'var' and i0.get('n') == base['n'] and load.ev_reaches(x, e):
                            # the loop bound: a header condition `it != base + n`
                            for bid, blk in load.blocks.items():
                                t = blk.get('term')
                                c = dstr(t.get('cond')) if t and 'cond' in t else ''
                                if t and t['kind'] in ('for', 'while') and x['n'] in c and base['n'] in c and \
                                        upper_by_fact(load, e, si.get('i'), lambda r: isinstance(strip(r), dict) and
                                                      strip(r).get('k') == 'var' and strip(r)['n'] in c):
                                    its.add(x['n'])

                def is_elem(d):
                    d = strip(d)
                    if not isinstance(d, dict):
                        return False
                    if vname and d.get('k') == 'var' and norm(d['n']) == norm(vname):
                        return True
                    if d.get('k') == 'un' and d.get('op') == '*' or (d.get('k') == 'call' and d.get('op') == '*'):
                        inner = strip(d.get('e') if d.get('k') == 'un' else (d.get('recv') or (d.get('args') or [None])[0]))
                        return isinstance(inner, dict) and inner.get('k') == 'var' and inner['n'] in its
                    return False
                ok = bool(validated) or bool(its)
                # the validating loop checks both bounds of that word
                ok2 = False
                if ok:
                    for x in load.events('call'):
                        if x.get('op') == '[]' and mentions_field(x.get('recv'), 'DepsLog::nodes_') and \
                                x is not e and is_elem((x.get('args') or [None])[0]):
                            lo, hi = bounds(load, x, x['args'][0])
                            ok2 = lo >= 0 and upper_by_fact(load, x, x['args'][0], nodes_size)
                # and a failed validation prevents reaching here: no path from an edge on which the
                # validated word is out of range (or names no node) leads to this subscript
                guard = ok
                covered = set()
                if ok:
                    def kind_of(a, pol):
                        a = strip(a)
                        if isinstance(a, dict) and a.get('k') == 'bin' and a['op'] == '<' and is_elem(a['l']):
                            if const_value(a['r']) == 0 and pol is True:
                                return 'negative'               # id < 0
                            if nodes_size(a['r']) and pol is False:
                                return 'too-large'              # !(id < nodes_.size())
                        if isinstance(a, dict) and a.get('k') == 'call' and a.get('op') == '[]' and \
                                mentions_field(a.get('recv'), 'DepsLog::nodes_') and is_elem((a.get('args') or [None])[0]) and pol is False:
                            return 'no-node'                    # !nodes_[id]
                        return None
                    for bb, blk in load.blocks.items():
                        for i2, s2 in enumerate(blk['succ']):
                            if s2 is None:
                                continue
                            for fk, pol, atom in load.edge_facts(bb, i2, all=True):
                                a = strip(atom)
                                # the alternatives this edge stands for: `f1 || f2 || f3` taken, or a single test
                                parts = [(atom, pol)]
                                if isinstance(a, dict) and a.get('k') == 'bin' and a['op'] in ('||', '&&') and (a['op'] == '||') == bool(pol):
                                    parts, st = [], [a]
                                    while st:
                                        x = strip(st.pop())
                                        if isinstance(x, dict) and x.get('k') == 'bin' and x['op'] == a['op']:
                                            st += [x['l'], x['r']]
                                        else:
                                            pa, pp = norm_cond(prog, x)
                                            parts.append((pa, pp if pol else (not pp)))
                                kinds = {kind_of(pa, pp) for pa, pp in parts} - {None}
                                if kinds:
                                    if load.find_path(None, lambda x: x is e, from_succ=s2,
                                                      init_facts=frozenset((k_, p_) for k_, p_, a_ in load.edge_facts(bb, i2, all=True))) is not None:
                                        guard = False
                                    else:
                                        covered |= kinds
                    # the validation computed as a value (`valid = id >= 0 && id < n && nodes_[id] != NULL`): the failure of one
                    # conjunct is not an edge of its own; it is replayed from the assignment with that conjunct false
                    for x in load.stores():
                        r0 = strip(x.get('r'))
                        if not (isinstance(r0, dict) and r0.get('k') == 'bin' and r0.get('op') == '&&'):
                            continue
                        parts, st = [], [r0]
                        while st:
                            y = strip(st.pop())
                            if isinstance(y, dict) and y.get('k') == 'bin' and y.get('op') == '&&':
                                st += [y['l'], y['r']]
                            else:
                                parts.append(norm_cond(prog, y))
                        for j, (pa, pp) in enumerate(parts):
                            kd = kind_of(pa, not pp)
                            if kd is None:
                                continue
                            init = {(dstr(pa), not pp)} | {(dstr(qa), qp) for m, (qa, qp) in enumerate(parts) if m != j}
                            # the store itself is evaluated by the path search (it sees the conjunct false)
                            prev = {'_b': x['_b'], '_i': x['_i'] - 1}
                            if load.find_path(prev, lambda z: z is e, init_facts=frozenset(init)) is not None:
                                guard = False
                            else:
                                covered.add(kd)
                    guard = guard and covered == {'negative', 'too-large', 'no-node'}
                nfail = sorted(covered)
                if os.environ.get('NV_DEBUG'):
                    print('revalidation', key, 'validated', bool(validated), 'its', its, 'ok2', ok2, 'guard', guard, 'nfail', nfail)
                ctx.check(RID, ok and ok2 and guard, load.name, 'nodes_[]:revalidation:%s' % key, load.where(e),
                          'nodes_[%s] re-reads a word that a preceding loop validated (0 <= id < nodes_.size()) '
                          'and is reached only when that validation did not fail' % key)
                continue
            lo, hi = bounds(load, e, idx)
            up = upper_by_fact(load, e, idx, nodes_size)
            ctx.check(RID, lo >= 0 and up, load.name, 'nodes_[]:unbounded:%s' % dstr(idx), load.where(e),
                      'nodes_[%s]: lower bound %s >= 0 and guarded by < nodes_.size(): %s' % (dstr(idx), lo, up))
    for e in load.events('idx'):
        b = dstr(strip(e['b']))
        i = e['i']
        if b.split('#')[0] in ('deps_data', 'buf'):
            n += 1
            lo, hi = bounds(load, e, i)
            if b.startswith('deps_data'):
                # word index k is inside the record iff 4*(k+1) <= size; the pointer was advanced by adv words
                adv = sum(const_value(x.get('r')) or 0 for x in load.events('asg')
                          if is_var('deps_data')(x['l']) and x['op'] == '+=' and load.dominates_ev(x, e))
                slo, shi = bounds(load, e, {'k': 'var', 'n': 'size', 'vk': 'local', 'tk': 'uint', 'ty': 'unsigned int'})
                ci = const_value(i)
                if ci is not None:
                    ok = lo >= 0 and 4 * (ci + adv + 1) <= slo
                    ctx.check(RID, ok, load.name, 'deps_data[]:beyond-record:%s' % dstr(i), load.where(e),
                              'deps_data[%s] (after += %d) lies inside the record: size >= %s proven, need %d' % (
                                  dstr(i), adv, slo, 4 * (ci + adv + 1)))
                else:
                    # loop index: bounded by deps_count, which is size/4 - adv
                    ok_lo = lo >= 0
                    ok_hi = upper_by_fact(load, e, i, lambda r: is_var('deps_count')(r))
                    dc = load.single_def('deps_count')
                    agree = dc is not None and dstr(strip(dc)).replace(' ', '') == '((size/4)-%d)' % adv
                    ctx.check(RID, ok_lo and ok_hi and agree, load.name, 'deps_data[]:loop-index:%s' % dstr(i), load.where(e),
                              'deps_data[%s]: 0 <= index < deps_count and deps_count == size/4 - (words skipped = %d): %s' % (
                                  dstr(i), adv, dstr(dc)))
            else:
                ok = lo >= 0 and hi < (bufsz or 0)
                ctx.check(RID, ok, load.name, 'buf[]:unbounded:%s' % dstr(i), load.where(e),
                          'buf[%s] index in [%s, %s] within [0, %s)' % (dstr(i), lo, hi, bufsz))
    # (4) allocation size and the count handed to the Deps constructor
    for e in load.events('new'):
        for a in e.get('args', [])[1:]:
            n += 1
            lo, hi = bounds(load, e, a)
            ctx.check(RID, lo >= 0 and hi < INF, load.name, 'new:count-unbounded:%s' % dstr(a), load.where(e),
                      'allocation count %s in [%s, %s] (non-negative, bounded)' % (dstr(a), lo, hi))
    dctor = prog.fn('DepsLog::Deps::Deps')
    for e in dctor.events('new'):
        ctx.check(RID, 'size' in e and mentions_var(e['size'], 'node_count'), dctor.name, 'Deps:array-size', dctor.where(e),
                  'Deps allocates node_count pointers')
    # (5) UpdateDeps(out_id): index into deps_ (resize-if-needed gives the upper bound)
    for e in load.calls('DepsLog::UpdateDeps'):
        n += 1
        lo, hi = bounds(load, e, e['args'][0])
        up = upper_by_fact(load, e, e['args'][0], nodes_size)
        ctx.check(RID, lo >= 0 and up, load.name, 'UpdateDeps:id-unbounded', load.where(e),
                  'output id handed to UpdateDeps is in [0, nodes_.size()): lower %s, guarded %s' % (lo, up))
    ud = prog.fn('DepsLog::UpdateDeps')
    # "the deps of an output are those most recently recorded": UpdateDeps installs the record it is given on every path
    # (no comparison with what was there decides whether the newer record counts)
    pdeps = [p_['n'] for p_ in ud.params if 'Deps' in (p_.get('ty') or '')]
    def _into_table(l):
        # directly, or through a reference to the slot (`Deps*& slot = deps_[out_id]; slot = deps;`)
        if mentions_field(l, 'DepsLog::deps_'):
            return True
        sl = strip(l)
        if isinstance(sl, dict) and sl.get('k') == 'var':
            return any(x['k'] == 'decl' and x['n'] == sl['n'] and x.get('ref') and mentions_field(x.get('init'), 'DepsLog::deps_') for x in ud.events('decl'))
        return False
    inst_ = [e for e in ud.events('asg') if _into_table(e['l']) and e['op'] == '=' and pdeps and mentions_var(e.get('r'), pdeps[0])]
    r_ = ud.find_path(None, lambda x: x['k'] in ('ret', 'exit'), from_succ=ud.entry, is_blocker=lambda x: x in inst_)
    ctx.check(RID, bool(inst_) and r_ is None, ud.name, 'UpdateDeps:record-not-installed', ud.loc,
              'DepsLog::UpdateDeps stores the record it was given on every path (the latest record of an output wins)',
              witness=None if r_ is None else {'blocks': r_[0]})
    for e in ud.events('call'):
        if e.get('op') == '[]' and mentions_field(e.get('recv'), 'DepsLog::deps_'):
            dominated_by(ctx, RID, ud, e, lambda x: x['k'] == 'call' and lastname(x.get('name')) == 'resize' and
                         mentions_field(x.get('recv'), 'DepsLog::deps_') or
                         (x['k'] == 'call' and False), 'n/a', 'n/a') if False else None
    rs = [e for e in ud.events('call') if lastname(e.get('name')) == 'resize' and mentions_field(e.get('recv'), 'DepsLog::deps_')]
    ok = len(rs) == 1 and fact_holds(ud.facts_at(rs[0]), lambda a: 'out_id' in dstr(a) and 'DepsLog::deps_.size()' in dstr(a), False)
    ctx.check(RID, ok, ud.name, 'UpdateDeps:resize-if-needed', ud.loc,
              'UpdateDeps grows deps_ to out_id + 1 when out_id >= deps_.size() before subscripting')
    # (6) checksum word and path length
    for e in load.events('decl'):
        if e['n'] == 'checksum':
            slo, shi = bounds(load, e, {'k': 'var', 'n': 'size', 'vk': 'local', 'tk': 'uint', 'ty': 'unsigned int'})
            plo, phi = bounds(load, e, {'k': 'var', 'n': 'path_size', 'vk': 'local', 'tk': 'int', 'ty': 'int'})
            n += 1
            # path_size = size - 4 > 0 (guard) => size >= 5; the word at buf + size - 4 is inside the record
            psd = [x for x in load.events('decl') if x['n'] == 'path_size']
            rel = bool(psd) and dstr(strip(psd[0].get('init'))).replace(' ', '') == '(size-4)'
            pg = any(k.replace(' ', '') == '(0<path_size)' and p for k, (p, a) in load.facts_at(psd[0]).items()) if psd else False
            reach = load.find_path(None, lambda x: x is e, from_succ=load.entry,
                                   edge_ok=lambda b, i, s: not (load.edge_fact(b, i) and load.edge_fact(b, i)[0].replace(' ', '') == '(0<path_size)'
                                                                and load.edge_fact(b, i)[1] is True), sensitive=False)
            ctx.check(RID, rel and reach is None and 'size' in dstr(e.get('init')) and '- 4' in dstr(e.get('init')),
                      load.name, 'checksum:word-outside-record', load.where(e),
                      'the checksum word at buf + size - 4 is read only after path_size = size - 4 > 0 was established')
    ctx.floor(RID, 12)


def _const_inits(f):
    """(('const', var), value) for locals declared with a constant initialiser and never
    reassigned before the loop (used as initial knowledge for path-sensitive searches)."""
    out = []
    for e in f.events('decl'):
        if e.get('init') is not None and const_value(e['init']) is not None and e.get('tk') == 'bool':
            out.append((('const', e['n']), const_value(e['init'])))
    return out
