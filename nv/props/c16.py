"""C16 — file names and response files reach commands intact (DESIGN 5.16)."""
from facts import AnalysisBroken
from model import (norm_cond, path_value, dstr, strip, fact_holds, mentions_field, mentions_call, mentions_var,
                   mentions_enum, const_value, walk, ret_value_class)
from rules import (unwrap_conv, deep_resolve, guarded, calls_to, field_writes, who_may_call, full_range, loops_over,
                   every_iteration_passes, basename, origins, is_var, is_enum, lastname,
                   dominated_by, reached_only_via, must_pass, linear)
import charset

# Characters that /bin/sh treats as ordinary in any position of an unquoted word.
INERT = set(b'abcdefghijklmnopqrstuvwxyzABCDEFGHIJKLMNOPQRSTUVWXYZ0123456789_+-./,:=@%')


def run(ctx):
    prog = ctx.prog
    R = ctx.rule

    # ---- W1: escape-mode wiring ------------------------------------------------------------------
    R('C16.W1', 'W', '$in/$out are built by MakePathList under the env\'s escape mode on every lookup; '
      'only the GetUnescaped* accessors use kDoNotEscape; the string handed to /bin/sh -c is '
      'Edge::EvaluateCommand() = GetBinding("command") (shell-escaping mode)')
    n = 0
    for f in prog.functions.values():
        for e in f.events('call'):
            if e.get('name') == 'EdgeEnv::EdgeEnv' and e.get('ctor'):
                n += 1
                mode = strip(e['args'][1]) if len(e.get('args', [])) > 1 else None
                m = mode.get('n') if isinstance(mode, dict) and mode.get('k') == 'enum' else dstr(mode)
                if m == 'EdgeEnv::kDoNotEscape':
                    ctx.check('C16.W1', f.name in ('Edge::GetUnescapedDepfile', 'Edge::GetUnescapedDyndep', 'Edge::GetUnescapedRspfile'),
                              f.name, 'EdgeEnv:kDoNotEscape-site', f.where(e), 'kDoNotEscape is used only for paths ninja itself opens (%s)' % f.name)
                else:
                    # every other evaluation escapes - wherever it is made (GetBinding today); the accessors whose result
                    # ninja opens itself must not (checked by name below)
                    ctx.check('C16.W1', m == 'EdgeEnv::kShellEscape' and not f.name.startswith('Edge::GetUnescaped'), f.name, 'EdgeEnv:mode:%s' % m,
                              f.where(e), 'EdgeEnv in %s uses %s' % (f.name, m))
    for name, key in (('Edge::GetUnescapedDepfile', 'depfile'), ('Edge::GetUnescapedDyndep', 'dyndep'), ('Edge::GetUnescapedRspfile', 'rspfile')):
        f = prog.fn(name)
        ok = any(e.get('name') == 'EdgeEnv::LookupVariable' and ('"%s"' % key) in dstr(deep_resolve(f, e.get('args'))) for e in f.events('call'))
        ctx.check('C16.W1', ok, name, 'unescaped-accessor:key', f.loc, '%s looks up "%s"' % (name, key))
        # ... and hands the evaluated text on as it is: the file ninja writes / reads / removes is the one the rule names
        # and the command opens (no canonicalisation or other rewriting of a path that is not a graph node)
        other = sorted({lastname(e.get('name') or '').split('<')[0] for e in f.events('call')} -
                       {'EdgeEnv', 'LookupVariable', 'StringPiece', 'basic_string', 'operator=', '~EdgeEnv', '~basic_string'})
        ctx.check('C16.W1', not other, name, 'unescaped-accessor:post-processing', f.loc,
                  '%s returns the looked-up value unchanged (other calls: %s)' % (name, other))
    ec = prog.fn('Edge::EvaluateCommand')
    rets = list(ec.events('ret'))
    def from_command(r):
        return any(isinstance(strip(o), dict) and strip(o).get('name') == 'Edge::GetBinding' and '"command"' in dstr(strip(o).get('args'))
                   for o in origins(ec, r.get('e')))
    ok = len(rets) >= 1 and all(from_command(r) for r in rets)
    ctx.check('C16.W1', ok, ec.name, 'EvaluateCommand:source', ec.loc, 'EvaluateCommand starts from GetBinding("command")')
    for e in ec.events('call'):
        if e.get('op') == '+=' and is_var('command')(e.get('recv')):
            guarded(ctx, 'C16.W1', ec, e, is_var('incl_rsp_file'), True,
                    'the command is extended (for hashing) only when incl_rsp_file is requested', construct='EvaluateCommand:extended')
    # ... and nothing else touches the text between the evaluation and the return: the command the shell gets is the
    # evaluated binding byte for byte (quoting produced by the escaping mode is only valid on exactly that text)
    from model import _written_names
    rv = {strip(unwrap_conv(r.get('e')))['n'] for r in rets if isinstance(strip(unwrap_conv(r.get('e'))), dict) and strip(unwrap_conv(r.get('e'))).get('k') == 'var'}
    for e in ec.events():
        if e['k'] == 'decl' or e['k'] == 'ret':
            continue
        wr = {n for kind, n in _written_names(ec, e) if kind == 'var'} & rv
        if not wr:
            continue
        appends = e['k'] == 'call' and (e.get('op') == '+=' or lastname(e.get('name')) in ('append', 'operator+=', 'push_back')) and \
            isinstance(strip(e.get('recv')), dict) and strip(e['recv']).get('k') == 'var' and strip(e['recv'])['n'] in rv
        ok = appends and fact_holds(ec.facts_at(e), is_var('incl_rsp_file'), True)
        ctx.check('C16.W1', ok, ec.name, 'EvaluateCommand:rewritten', ec.where(e),
                  'the evaluated command is only appended to (under incl_rsp_file), never rewritten: `%s`' % (e.get('src') or e.get('name') or '')[:60])
    sc = prog.fn('RealCommandRunner::StartCommand')
    for e in sc.calls('SubprocessSet::Add'):
        os_ = origins(sc, e['args'][0])
        ok = bool(os_) and all(isinstance(strip(o), dict) and strip(o).get('name') == 'Edge::EvaluateCommand' and
                               not any(const_value(a) == 1 for a in strip(o).get('args', [])) for o in os_)
        ctx.check('C16.W1', ok, sc.name, 'spawned-command:source', sc.where(e),
                  'the spawned command line is edge->EvaluateCommand() (without the rspfile suffix): %s' % [dstr(o)[:50] for o in os_])
    st = prog.fn('Subprocess::Start')
    sp = [e for e in st.calls() if e.get('name') in ('posix_spawn', 'posix_spawnp', 'execl', 'execv')]
    argv = [e for e in st.events('decl') if e['n'].split('#')[0] == 'spawned_args']
    ok = len(sp) == 1 and len(argv) == 1 and dstr(argv[0].get('init')).replace(' ', '').startswith('{"/bin/sh","-c",command.c_str()')
    ctx.check('C16.W1', ok, st.name, 'spawn:argv', st.loc, 'the child is /bin/sh -c <command> (%s)' % (dstr(argv[0].get('init'))[:60] if argv else None))
    # MakePathList
    mpl = prog.fn('EdgeEnv::MakePathList')
    esc = [e for e in mpl.calls('GetShellEscapedString')]
    raw = [e for e in mpl.events('call') if lastname(e.get('name')) == 'append' and is_var('result')(e.get('recv'))]
    ctx.check('C16.W1', len(esc) == 1 and len(raw) == 1, mpl.name, 'MakePathList:append-sites', mpl.loc,
              'one escaped and one verbatim append site')
    for e in esc:
        guarded(ctx, 'C16.W1', mpl, e, lambda a: mentions_field(a, 'EdgeEnv::escape_in_out_') and mentions_enum(a, 'EdgeEnv::kShellEscape'), True,
                'paths are shell-escaped under kShellEscape', construct='MakePathList:escape-mode')
        ctx.check('C16.W1', is_var('path')(e['args'][0]) or 'PathDecanonicalized' in dstr(origins(mpl, e['args'][0])), mpl.name,
                  'MakePathList:escaped-arg', mpl.where(e), 'what is escaped is the node\'s path')
    for e in raw:
        guarded(ctx, 'C16.W1', mpl, e, lambda a: mentions_field(a, 'EdgeEnv::escape_in_out_') and mentions_enum(a, 'EdgeEnv::kShellEscape'), False,
                'verbatim only under kDoNotEscape', construct='MakePathList:verbatim-mode')
    for bid, b in mpl.blocks.items():
        t = b.get('term')
        if t and t['kind'] == 'for' and len(b['succ']) == 2:
            c = dstr(mpl.eff_cond(bid)).replace(' ', '')
            # the loop makes exactly `size` trips starting at the first element of `span`:
            # bound - initial value == size (pointer loop from span to span + size, or index loop from 0 to size)
            cc = strip(mpl.eff_cond(bid))
            trips = None
            if isinstance(cc, dict) and cc.get('k') == 'bin' and cc['op'] in ('!=', '<') and strip(cc['l']).get('k') == 'var':
                lv = strip(cc['l'])['n']
                inits = [x.get('init') for x in mpl.events('decl') if x['n'] == lv and x.get('init') is not None]
                steps = [x for x in mpl.events('asg') if is_var(lv)(x['l'])]
                if len(inits) == 1 and steps and all(x['op'] == '++' for x in steps):
                    trips = linear(mpl, {'k': 'bin', 'op': '-', 'l': cc['r'], 'r': inits[0]})
                    first = linear(mpl, inits[0])
                    okfirst = first == {'span': 1} or (first == {} and any(
                        x.get('k') == 'idx' and mentions_var(x.get('b'), 'span') and mentions_var(x.get('i'), lv) for ev in mpl.events() for x in walk(ev)))
                    trips = trips if okfirst else None
            ctx.check('C16.W1', trips == {'size': 1}, mpl.name, 'MakePathList:loop-bound', 'src/graph.cc:%s' % t['line'],
                      'every one of the `size` paths is appended (%s; trips = %s)' % (c, trips))
            loop = {'header': bid, 'body': b['succ'][0], 'line': t['line'], 'bound': c}
            every_iteration_passes(ctx, 'C16.W1', mpl, loop, lambda x: x in esc or x in raw, 'each path is appended',
                                   'MakePathList:path-skipped')
    w = [(f.name, e) for f, e, kind, rhs in field_writes(prog, 'EdgeEnv::escape_in_out_')]
    ctx.check('C16.W1', all(e.get('init') for n_, e in w), 'EdgeEnv', 'escape_in_out_:writers', mpl.loc,
              'the escape mode is fixed at construction')
    # LookupVariable: in / out come from MakePathList each time
    lv = prog.fn('EdgeEnv::LookupVariable')
    mp = list(lv.calls('EdgeEnv::MakePathList'))
    ctx.check('C16.W1', len(mp) == 2, lv.name, 'LookupVariable:MakePathList-sites', lv.loc, '$in/$in_newline and $out are built by MakePathList')
    nret = 0
    for e in lv.events('ret'):
        facts = lv.facts_at(e)
        special = fact_holds(facts, lambda a: any(('"%s"' % k) in dstr(a) for k in ('in', 'in_newline', 'out')), True)
        if special:
            nret += 1
            d = strip(e.get('e'))
            ctx.check('C16.W1', isinstance(d, dict) and d.get('k') == 'call' and d.get('name') == 'EdgeEnv::MakePathList', lv.name,
                      'LookupVariable:cached-path-list', lv.where(e),
                      'the value of $in/$out is a fresh MakePathList result (depends on this env\'s escape mode): %s' % dstr(d)[:70])
    for e in mp:
        a = [dstr(x).replace(' ', '') for x in e['args']]
        isin = 'Edge::inputs_' in a[0]
        cnt = dstr(lv.single_def(strip(e['args'][1])['n']) if strip(e['args'][1]).get('k') == 'var' else e['args'][1]).replace(' ', '')
        if isin:
            ok = 'Edge::inputs_.size()' in cnt and 'Edge::implicit_deps_' in cnt and 'Edge::order_only_deps_' in cnt and cnt.count('-') == 2
            ctx.check('C16.W1', ok, lv.name, '$in:range', lv.where(e), '$in covers the explicit inputs only: count = %s' % cnt)
            # the separator handed over: ' ' on every path that decided var == "in", '\n' on the others
            def wrong_sep(ev, facts, e=e):
                isin_ = [p_ for (k_, p_) in facts if isinstance(k_, str) and '"in"' in k_ and 'operator==' in k_ and '||' not in k_ and '&&' not in k_]
                v = path_value(lv, e['args'][2], facts)
                if not isin_:
                    return True
                return v != (32 if isin_[0] else 10)
            r = lv.find_path(None, lambda x: x is e, from_succ=lv.entry, hit_ok=wrong_sep)
            ctx.check('C16.W1', r is None, lv.name, '$in:separator', lv.where(e), '$in uses space, $in_newline newline',
                      witness=None if r is None else {'blocks': r[0]})
        else:
            ok = 'Edge::outputs_.size()' in cnt and 'Edge::implicit_outs_' in cnt and cnt.count('-') == 1 and 'Edge::outputs_' in a[0]
            ctx.check('C16.W1', ok, lv.name, '$out:range', lv.where(e), '$out covers the explicit outputs only: count = %s' % cnt)
    ctx.floor('C16.W1', 18)

    # ---- VS1: safe-character table ------------------------------------------------------------------
    R('C16.VS1', 'VS', 'the set of bytes IsKnownShellSafeCharacter accepts is a subset of the characters '
      'that are inert in an unquoted /bin/sh word; a name made of such bytes is appended verbatim, '
      'everything else is wrapped in single quotes')
    safe_fn = prog.fn('IsKnownShellSafeCharacter')
    var = safe_fn.params[0]['n']
    charset.TABLES.clear()
    charset.TABLES.update({k_: g_['cvtab'] for k_, g_ in prog.globals.items() if isinstance(g_, dict) and 'cvtab' in g_})
    charset.TABLES.update({k_.rsplit('::', 1)[-1]: g_['cvtab'] for k_, g_ in prog.globals.items() if isinstance(g_, dict) and 'cvtab' in g_ and '::' in k_})
    rb = charset.returned_by_byte(safe_fn, var)
    safe = {b for b, vs in rb.items() if any(v not in (0, None) for v in vs) or None in vs}     # undecidable counts as "may be safe"
    unsafe = {b for b, vs in rb.items() if 0 in vs or None in vs}
    ctx.check('C16.VS1', safe and safe <= INERT, safe_fn.name, 'safe-set:not-inert:%s' % ''.join(chr(c) for c in sorted(safe - INERT))[:20],
              safe_fn.loc, 'safe set (%d bytes: %s) is within the shell-inert set' % (len(safe), ''.join(chr(c) for c in sorted(safe))))
    ctx.check('C16.VS1', not (safe & unsafe) and len(safe | unsafe) == 256, safe_fn.name, 'safe-set:ambiguous', safe_fn.loc,
              'the predicate is decided for every byte value (%d safe, %d unsafe)' % (len(safe), len(unsafe)))
    ctx.table('C16.VS1.safe_set', ''.join(chr(c) for c in sorted(safe)))
    need = prog.fn('StringNeedsShellEscaping')
    full_range(ctx, 'C16.VS1', need, lambda d: isinstance(d, dict) and d.get('k') == 'var' and d['n'] == 'input',
               'every character of the name is examined')
    for e in need.events('ret'):
        if const_value(e.get('e')) == 1:
            guarded(ctx, 'C16.VS1', need, e, lambda a: mentions_call(a, 'IsKnownShellSafeCharacter') or
                    any(x.get('k') == 'int' for x in walk(a)), False, 'needs escaping iff some character is not known safe',
                    construct='NeedsEscaping:true-guard')
    gs = prog.fn('GetShellEscapedString')
    apps = [e for e in gs.events('call') if lastname(e.get('name')) in ('append', 'push_back') and is_var('result')(e.get('recv'))]
    plain = [e for e in apps if fact_holds(gs.facts_at(e), lambda a: mentions_call(a, 'StringNeedsShellEscaping'), False)]
    quoted = [e for e in apps if fact_holds(gs.facts_at(e), lambda a: mentions_call(a, 'StringNeedsShellEscaping'), True)]
    ctx.check('C16.VS1', len(plain) == 1 and is_var('input')(plain[0]['args'][0]), gs.name, 'verbatim-path:writes', gs.loc,
              'a name that needs no escaping is appended verbatim, once (%d writes)' % len(plain))
    for e in plain:
        r = gs.find_path(e, lambda x: x in apps)
        ctx.check('C16.VS1', r is None, gs.name, 'verbatim-path:more-writes', gs.where(e), 'nothing else is appended on the verbatim path')
    pb = [e for e in quoted if lastname(e.get('name')) == 'push_back']
    q = [e for e in gs.events('decl') if e['n'] == 'kQuote']
    ctx.check('C16.VS1', len(pb) == 2 and all(is_var('kQuote')(e['args'][0]) for e in pb) and q and const_value(q[0].get('init')) == 39,
              gs.name, 'quoted-path:delimiters', gs.loc, 'an escaped name starts and ends with a single quote')
    first = [e for e in quoted if all(gs.dominates_ev(e, o) for o in quoted if o is not e)]
    last = [e for e in quoted if all(gs.ev_reaches(o, e) for o in quoted if o is not e) and not any(gs.ev_reaches(e, o) for o in quoted if o is not e)]
    ctx.check('C16.VS1', first and first[0] in pb and last and last[0] in pb, gs.name, 'quoted-path:order', gs.loc,
              'the opening quote is written first and the closing quote last')
    ctx.floor('C16.VS1', 8)

    # ---- O1: response file lifecycle ------------------------------------------------------------------
    R('C16.O1', 'O', 'the response file is written with the evaluated rspfile_content before the '
      'command starts (C04.O2) and removed only after the command succeeded, unless -d keeprsp')
    fc = prog.fn('Builder::FinishCommand')
    rm = [e for e in fc.calls('DiskInterface::RemoveFile') if any(mentions_call(o, 'Edge::GetUnescapedRspfile') for o in origins(fc, e['args'][0]))]
    ctx.check('C16.O1', len(rm) == 1, fc.name, 'rspfile-remove:sites', fc.loc, 'one removal of the response file')
    for e in rm:
        facts = fc.facts_at(e)
        ok = fact_holds(facts, lambda a: mentions_field(a, 'BuildResult::CommandCompleted::status') and mentions_enum(a, 'ExitSuccess'), True)
        ctx.check('C16.O1', ok, fc.name, 'rspfile-remove:on-failure', fc.where(e), 'the response file is kept when the command fails')
        guarded(ctx, 'C16.O1', fc, e, lambda a: 'g_keep_rsp' in dstr(a), False, 'and kept under -d keeprsp', construct='rspfile-remove:keeprsp')
    # ... and only under it: the debug switches that keep scratch files are set by their own -d names
    de = prog.fn('DebugEnable')
    def is_flag_test(a, flag):
        return ('"%s"' % flag) in dstr(a) and 'operator==' in dstr(a)
    for gname, flag in (('g_keep_rsp', 'keeprsp'), ('g_keep_depfile', 'keepdepfile')):
        nsites = 0
        for e in de.stores():
            l = strip(e.get('l'))
            if not (isinstance(l, dict) and l.get('k') == 'var'):
                continue
            if l['n'] == gname:
                nsites += 1
                guarded(ctx, 'C16.O1', de, e, lambda a, flag=flag: is_flag_test(a, flag), True,
                        '%s is set only for -d %s' % (gname, flag), construct='debug-flag:%s:wrong-name' % gname)
            elif l.get('vk') == 'local' and not e.get('from_decl'):
                # a store through a local reference `bool& keep = c ? g_a : g_b;`
                inits = [d.get('init') for d in de.events('decl') if d['n'] == l['n'] and '&' in (d.get('ty') or '')]
                i0 = strip(inits[0]) if len(inits) == 1 and inits[0] is not None else None
                if isinstance(i0, dict) and i0.get('k') == 'cond':
                    for arm, pol in ((i0['t'], True), (i0['f'], False)):
                        sa = strip(arm)
                        if isinstance(sa, dict) and sa.get('k') == 'var' and sa.get('n') == gname:
                            nsites += 1
                            at, ap = norm_cond(prog, i0['c'])
                            want = ap if pol else (not ap)          # truth of the atom that selects this arm

                            def bad_path(ev, facts, at=at, want=want, flag=flag):
                                if (dstr(at), not want) in facts:
                                    return False                    # the other arm is chosen on this path
                                sel = facts | {(dstr(at), want)}
                                return not any(k.__class__ is str and p2 is True and ('"%s"' % flag) in k and 'operator==' in k and '||' not in k
                                               for k, p2 in sel)
                            r = de.find_path(None, lambda x: x is e, from_succ=de.entry, hit_ok=bad_path)
                            ok = r is None
                            ctx.check('C16.O1', ok, de.name, 'debug-flag:%s:wrong-name' % gname, de.where(e),
                                      '%s is set (through `%s`) only for -d %s' % (gname, l['n'], flag))
        ctx.check('C16.O1', nsites >= 1, de.name, 'debug-flag:%s:never-set' % gname, de.loc, '-d %s sets %s' % (flag, gname))
    for gname in ('g_keep_rsp', 'g_keep_depfile'):
        others = [(f2.name, e2) for f2 in prog.functions.values() if f2.name != 'DebugEnable' and not f2.file.startswith('third_party')
                  for e2 in f2.stores() if isinstance(strip(e2.get('l')), dict) and strip(e2['l']).get('k') == 'var' and strip(e2['l'])['n'] == gname]
        ctx.check('C16.O1', not others, gname, 'debug-flag:%s:other-writers' % gname, 'src/debug_flags.cc', 'only DebugEnable sets %s: %s' % (gname, [n for n, e in others]))
    se = prog.fn('Builder::StartEdge')
    wf = [e for e in se.calls('DiskInterface::WriteFile') if any(mentions_call(o, 'Edge::GetUnescapedRspfile') for o in origins(se, e['args'][0]))]
    sc2 = list(se.calls('CommandRunner::StartCommand'))
    ctx.check('C16.O1', len(wf) == 1 and sc2 and se.dominates_ev(wf[0], sc2[0]) is not None, se.name, 'rspfile-write', se.loc,
              'the response file is written in StartEdge')
    for x in wf:
        content = origins(se, x['args'][1])
        ok = bool(content) and all(isinstance(strip(o), dict) and strip(o).get('name') == 'Edge::GetBinding' and
                                   'rspfile_content' in dstr(strip(o).get('args')) for o in content)
        ctx.check('C16.O1', ok, se.name, 'rspfile-content', se.where(x), 'with exactly GetBinding("rspfile_content")')
        r = se.find_path(None, lambda y: y is sc2[0], from_succ=se.entry, is_blocker=lambda y: y is x,
                         edge_ok=lambda b, i, s: not any('rspfile' in ef[0] and 'rspfile_content' not in ef[0] and 'empty' in ef[0] and ef[1] is True
                                                         for ef in se.edge_facts(b, i)))
        ctx.check('C16.O1', r is None, se.name, 'rspfile-write-skipped', se.where(x),
                  'the command starts without the response file being written only if the rule has no rspfile',
                  witness=None if r is None else {'blocks': r[0]})
    for f in prog.functions.values():
        if f.name in ('Builder::StartEdge', 'Builder::FinishCommand', 'Cleaner::RemoveEdgeFiles') or f.file == 'ninja.cc':
            continue
        for e in f.calls('Edge::GetUnescapedRspfile'):
            ctx.violation('C16.O1', f.name, 'rspfile:other-user', f.where(e), 'unexpected user of the response file path: %s' % f.name)
    # the file holds exactly `contents`: truncating open, one write of the whole string, checked close
    wfn = prog.fn('RealDiskInterface::WriteFile')
    opens = [e for e in wfn.events('call') if e.get('name') in ('fopen', 'open', 'fdopen', 'creat', 'freopen', 'openat')]
    trunc = False
    desc = []
    for e in opens:
        a = e.get('args') or []
        if e['name'] in ('fopen', 'freopen') and len(a) >= 2:
            modes = [strip(x).get('v') for x in walk(a[1]) if isinstance(x, dict) and x.get('k') == 'str']
            desc.append('%s mode %s' % (e['name'], modes))
            if modes and all(isinstance(m, str) and m.startswith('w') for m in modes):
                trunc = True
        elif e['name'] in ('open', 'openat'):
            fl = a[1] if e['name'] == 'open' else (a[2] if len(a) > 2 else None)
            v = const_value(fl) if fl is not None else None
            desc.append('%s flags %s' % (e['name'], oct(v) if v is not None else dstr(fl)))
            if v is not None and v & 0o1000:        # O_TRUNC
                trunc = True
        elif e['name'] == 'creat':
            trunc = True
    ctx.check('C16.O1', bool(opens) and trunc, wfn.name, 'WriteFile:no-truncation', wfn.loc,
              'WriteFile opens its target truncating (fopen "w…" / O_TRUNC), so no stale tail of an older, '
              'longer response file survives: %s' % desc)
    fw = list(wfn.calls('fwrite'))
    okw = len(fw) == 1 and mentions_var(fw[0]['args'][0], 'contents') and mentions_var(fw[0]['args'][2], 'contents') and \
        const_value(fw[0]['args'][1]) == 1
    ctx.check('C16.O1', okw, wfn.name, 'WriteFile:partial-write', wfn.loc, 'one fwrite of contents.data() with contents.length() bytes')
    for callee in ('fwrite', 'fclose'):
        must_pass(ctx, 'C16.O1', wfn, lambda x, c=callee: x['k'] == 'call' and x.get('name') == c,
                  lambda x: x['k'] == 'ret' and ret_value_class(prog, wfn, x) == 'success',
                  'WriteFile succeeds only after %s' % callee, 'WriteFile:success-without-%s' % callee)
    ctx.floor('C16.O1', 10)
