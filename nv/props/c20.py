"""C20 — progress and command output are reported once, whole and consistent (DESIGN 5.20)."""
from facts import AnalysisBroken
from model import (dstr, strip, fact_holds, mentions_field, mentions_call, mentions_var,
                   mentions_enum, const_value, walk)
from rules import (guarded, calls_to, field_writes, who_may_write, who_may_call, full_range,
                   loops_over, basename, origins, is_var, is_enum, lastname, dominated_by,
                   must_pass, reached_only_via, deep_resolve)


def phony(a):
    return mentions_field(a, 'Rule::phony_') or mentions_call(a, 'Edge::is_phony')


def console(a):
    return 'State::kConsolePool' in dstr(a) or mentions_call(a, 'Edge::use_console')


def run(ctx):
    prog = ctx.prog
    R = ctx.rule

    # ---- W1: one path for command output -----------------------------------------------------------
    R('C20.W1', 'W', 'what a command writes is collected in Subprocess::buf_ by OnPipeReady only, '
      'leaves through GetOutput once per command, and is printed at a single site of '
      'StatusPrinter::BuildEdgeFinished; stdout and stderr of a non-console child are the same pipe')
    who_may_write(ctx, 'C20.W1', 'Subprocess::buf_', {'Subprocess::OnPipeReady': 'appends what was read from the pipe'}, 'collected output')
    opr = prog.fn('Subprocess::OnPipeReady')
    for e in opr.events('call'):
        if lastname(e.get('name')) == 'append' and mentions_field(e.get('recv'), 'Subprocess::buf_'):
            guarded(ctx, 'C20.W1', opr, e, lambda a: is_var('len')(strip(a).get('r') if strip(a).get('k') == 'bin' else None)
                    or 'len' in dstr(a), None, 'only the bytes actually read are appended', construct='OnPipeReady:append-guard')
            ctx.check('C20.W1', mentions_var(e.get('args'), 'buf') and mentions_var(e.get('args'), 'len'), opr.name, 'OnPipeReady:append-args',
                      opr.where(e), 'buf_.append(buf, len)')
    who_may_call(ctx, 'C20.W1', 'Subprocess::GetOutput', {'RealCommandRunner::WaitForCommandOrJobserverToken': 'moves it into the build result'},
                 'output hand-over')
    wc = prog.fn('RealCommandRunner::WaitForCommandOrJobserverToken')
    go = list(wc.calls('Subprocess::GetOutput'))
    dl = [e for e in wc.events('delete')]
    ctx.check('C20.W1', len(go) == 1 and len(dl) == 1 and wc.ev_reaches(go[0], dl[0]) and not wc.ev_reaches(dl[0], go[0]), wc.name,
              'output:taken-once', wc.loc, 'the output is taken once and the subprocess object is deleted right after')
    for e in wc.events('call'):
        if e.get('name') == 'BuildResult::CommandCompleted::CommandCompleted':
            ctx.check('C20.W1', mentions_var(e.get('args'), 'output'), wc.name, 'output:not-in-result', wc.where(e), 'the output travels in the CommandCompleted result')
    bef = prog.fn('StatusPrinter::BuildEdgeFinished')
    # the sites that print the command's output: a PrintOnNewLine whose text is the `output` parameter itself or something
    # derived from it alone (the ANSI-stripped copy), however many locals / pointers carry it there
    outp = [p_['n'] for p_ in bef.params if p_['n'] == 'output'] or ['output']

    def derived_from_output(d):
        seen_, todo, texts = set(), [x['n'] for x in walk(d) if isinstance(x, dict) and x.get('k') == 'var'], []
        if any(v == outp[0] for v in todo):
            return True
        while todo:
            v = todo.pop()
            if v in seen_:
                continue
            seen_.add(v)
            for x in bef.events():
                src = None
                if x['k'] == 'decl' and x['n'] == v:
                    src = x.get('init')
                elif x['k'] == 'asg' and isinstance(strip(x['l']), dict) and strip(x['l']).get('k') == 'var' and strip(x['l'])['n'] == v:
                    src = x.get('r')
                elif x['k'] == 'call' and x.get('op') == '=' and isinstance(strip(x.get('recv')), dict) and strip(x['recv']).get('k') == 'var' and strip(x['recv'])['n'] == v:
                    src = (x.get('args') or [None])[0]
                if src is None:
                    continue
                for y in walk(src):
                    if isinstance(y, dict) and y.get('k') == 'var':
                        if y['n'] == outp[0]:
                            return True
                        todo.append(y['n'])
        return False
    header = lambda e: any(mentions_call(a, 'Edge::EvaluateCommand') or mentions_var(a, 'failed') or mentions_var(a, 'outputs') for a in e.get('args') or [])
    prints = [e for e in bef.calls('LinePrinter::PrintOnNewLine') if not header(e) and derived_from_output(e.get('args'))]
    ctx.check('C20.W1', len(prints) >= 1, bef.name, 'output:print-sites', bef.loc, 'the output is printed (as is, or with ANSI codes stripped): %d site(s)' % len(prints))
    for i_, a_ in enumerate(prints):
        for b_ in prints[i_ + 1:]:
            ctx.check('C20.W1', not bef.ev_reaches(a_, b_) and not bef.ev_reaches(b_, a_), bef.name,
                      'output:printed-twice', bef.where(b_), 'two print sites of the output are alternatives (never both)')
    for e in prints:
        guarded(ctx, 'C20.W1', bef, e, lambda a: 'output.empty()' in dstr(a), False, 'only a non-empty output is printed', construct='output:empty-printed')
    strips = list(bef.calls('StripAnsiEscapeCodes'))
    ctx.check('C20.W1', len(strips) >= 1 and all(mentions_var(x.get('args'), outp[0]) for x in strips),
              bef.name, 'output:stripped-source', bef.loc, 'the stripped variant is derived from the same output')
    fcmd = prog.fn('Builder::FinishCommand')
    calls = list(fcmd.calls('Status::BuildEdgeFinished'))
    ctx.check('C20.W1', len(calls) == 1 and 'BuildResult::CommandCompleted::output' in dstr(calls[0].get('args')), fcmd.name, 'output:passed-once',
              fcmd.loc, 'FinishCommand hands result.output to the status exactly once')
    who_may_call(ctx, 'C20.W1', 'Status::BuildEdgeFinished', {'Builder::FinishCommand': 'the only completion site'}, 'completion report')
    st = prog.fn('Subprocess::Start')
    dups = [e for e in st.calls('posix_spawn_file_actions_adddup2')]
    targets = [const_value(e['args'][2]) for e in dups if const_value(e['args'][2]) is not None]
    for e in dups:
        # `for (fd : {1, 2}) adddup2(.., pipe, fd)`: the targets are the elements of the constant table the loop walks
        t_ = strip(e['args'][2])
        if const_value(t_) is None and isinstance(t_, dict) and t_.get('k') == 'idx':
            b_ = strip(t_.get('b'))
            for gname, g in prog.globals.items():
                if isinstance(g, dict) and isinstance(g.get('cvtab'), list) and isinstance(b_, dict) and b_.get('k') == 'var' and \
                        (gname == b_['n'] or gname.endswith('::' + b_['n'])):
                    targets += [v for v in g['cvtab'] if isinstance(v, int)]
    targets = sorted(targets)
    srcs = {dstr(e['args'][1]) for e in dups}
    ctx.check('C20.W1', targets == [1, 2] and len(srcs) == 1, st.name, 'child:stdout-stderr-pipe', st.loc,
              'fd 1 and fd 2 of the child are dup\'ed from the same pipe end (%s -> %s)' % (sorted(srcs), targets))
    # the end of the pipe the command writes to is an ordinary blocking descriptor: the command keeps whatever mode the
    # descriptor has when it is dup'ed onto 1 / 2, and a writer that gets EAGAIN loses output (or fails)
    mk = [e for e in st.events('call') if e.get('name') in ('pipe', 'pipe2', 'socketpair')]
    ctx.check('C20.W1', len(mk) == 1, st.name, 'child:pipe-creation', st.loc, 'the output pipe is created once (%s)' % [e.get('name') for e in mk])
    for e in mk:
        fl = const_value(e['args'][1]) if e.get('name') == 'pipe2' and len(e.get('args') or []) > 1 else 0
        ctx.check('C20.W1', e.get('name') in ('pipe', 'pipe2') and isinstance(fl, int) and not (fl & 0o4000), st.name, 'child:nonblocking-output-pipe', st.where(e),
                  'the pipe handed to the command is created blocking (%s, flags %s)' % (e.get('name'), oct(fl) if isinstance(fl, int) else fl))
    for e in st.events('call'):
        if e.get('name') == 'fcntl' and any(isinstance(const_value(a), int) and const_value(a) & 0o4000 for a in (e.get('args') or [])[2:]) and \
                const_value((e.get('args') or [None, None])[1]) == 4:
            ctx.check('C20.W1', not srcs or not any(s_ in dstr(e['args'][0]) for s_ in srcs), st.name, 'child:nonblocking-output-pipe', st.where(e),
                      'O_NONBLOCK is not set on the end of the pipe the command writes to')
    for e in dups:
        guarded(ctx, 'C20.W1', st, e, lambda a: mentions_field(a, 'Subprocess::use_console_'), False,
                'redirection applies to non-console children', construct='child:dup-under-console')
    # the stripper drops nothing but escape sequences: it walks the whole input in constant steps,
    # copies every byte that is not ESC, and leaves the loop early only when ESC is the last byte
    sa = prog.fn('StripAnsiEscapeCodes')
    inp = sa.params[0]['n']
    hdrs = [(bid, b) for bid, b in sa.blocks.items() if b.get('term') and b['term']['kind'] in ('for', 'while') and
            len(b['succ']) == 2 and '%s.size()' % inp in dstr(b['term'].get('cond')).replace('std::basic_string<char>::', '')]
    outer = [(bid, b) for bid, b in hdrs if b['term']['kind'] == 'for']
    ctx.check('C20.W1', len(outer) == 1, sa.name, 'strip:outer-loop', sa.loc, 'one loop over the whole input (i < in.size())')
    for bid, b in outer:
        body, after = b['succ'][0], b['succ'][1]
        def only_at_end(bb, i, s2):
            if bb == bid:
                return False            # the regular exit through the loop condition
            for k, pol, atom in sa.edge_facts(bb, i):
                kk = k.replace(' ', '').replace('std::basic_string<char>::', '')
                if pol is True and ('(i+1)>=%s.size()' % inp in kk or '(i+1)<%s.size()' % inp in kk and False):
                    return False
                if pol is False and '(i+1)<%s.size()' % inp in kk:
                    return False
            return True
        first_after = (sa.blocks[after]['ev'] or [None])[0]
        r = sa.find_path(None, lambda x: x is first_after, from_succ=body, edge_ok=only_at_end, sensitive=False) \
            if first_after is not None else None
        ctx.check('C20.W1', r is None, sa.name, 'strip:early-exit', sa.loc,
                  'the loop is left early only when ESC is the last byte of the output (nothing after it can be lost)',
                  witness=None if r is None else {'blocks': r[0]})
    steps = [e for e in sa.events('asg') if is_var('i')(e['l'])]

    def via_iterator(e):
        # `i = it - in.begin()` where `it` starts at `in.begin() + i` and is only ever stepped by ++ (std::find_if and
        # friends, or a hand-written iterator loop): the same walk, byte by byte, in iterator clothing
        r = strip(e.get('r'))
        if not (e['op'] == '=' and isinstance(r, dict) and r.get('k') == 'call' and r.get('op') == '-'):
            return False
        ops = ([r['recv']] if r.get('recv') is not None else []) + list(r.get('args') or [])
        if len(ops) != 2:
            return False
        itv, beg = strip(deep_resolve(sa, ops[0])), strip(ops[1])
        def is_begin(d):
            d = strip(d)
            return isinstance(d, dict) and d.get('k') == 'call' and lastname(d.get('name')) in ('begin', 'cbegin') and is_var(inp)(d.get('recv'))
        if not (is_begin(beg) and isinstance(itv, dict) and itv.get('k') == 'var'):
            return False
        defs = [x for x in sa.stores() if is_var(itv['n'])(x['l'])]
        def start(x):
            d = strip(x.get('r'))
            if not (isinstance(d, dict) and d.get('k') == 'call' and d.get('op') == '+'):
                return False
            o = ([d['recv']] if d.get('recv') is not None else []) + list(d.get('args') or [])
            return len(o) == 2 and is_begin(o[0]) and is_var('i')(o[1])
        return bool(defs) and all(x['op'] == '++' or (x['op'] == '=' and start(x)) for x in defs)
    ctx.check('C20.W1', steps and all(e['op'] == '++' or (e['op'] == '+=' and const_value(e.get('r')) is not None) or via_iterator(e) for e in steps),
              sa.name, 'strip:jump', sa.loc, 'the scan position only advances in constant steps: %s' % [e.get('src', e['op']) for e in steps])
    pb = [e for e in sa.events('call') if lastname(e.get('name')) == 'push_back']
    ctx.check('C20.W1', len(pb) == 1, sa.name, 'strip:copy-sites', sa.loc, 'one copy site')
    ncopy = 0
    for e in pb:
        for bb, blk in sa.blocks.items():
            for i, s2 in enumerate(blk['succ']):
                if s2 is None:
                    continue
                for k, pol, atom in sa.edge_facts(bb, i):
                    a = strip(atom)
                    if not (isinstance(a, dict) and a.get('k') == 'bin' and a['op'] in ('==', '!=') and const_value(a['r']) == 27):
                        continue
                    if (pol is True) == (a['op'] == '=='):
                        continue            # the ESC side
                    ncopy += 1
                    r = sa.find_path(None, lambda x: x.get('_b') == outer[0][0] or x['k'] in ('exit', 'ret'), from_succ=s2,
                                     is_blocker=lambda x: x is e, sensitive=False)
                    ctx.check('C20.W1', r is None, sa.name, 'strip:byte-dropped', sa.where(e), 'a byte that is not ESC is copied',
                              witness=None if r is None else {'blocks': r[0]})
    ctx.check('C20.W1', ncopy >= 1, sa.name, 'strip:esc-test', sa.loc, 'the ESC test was found (%d edges)' % ncopy)
    # the pipe is read until EOF: only the Subprocess itself closes / forgets its descriptor, and only when read() said so
    who_may_write(ctx, 'C20.W1', 'Subprocess::fd_', {'Subprocess::Subprocess': 'init', 'Subprocess::Start': 'pipe creation',
                                                      'Subprocess::OnPipeReady': 'EOF / error from read()'}, 'pipe descriptor')
    opr = prog.fn('Subprocess::OnPipeReady')
    for e in opr.calls('close'):
        guarded(ctx, 'C20.W1', opr, e, lambda a: isinstance(strip(a), dict) and strip(a).get('k') == 'bin' and strip(a)['op'] == '<' and
                const_value(strip(a)['l']) == 0 and mentions_var(strip(a)['r'], 'len'), False,
                'the pipe is closed only when read() returned no data', construct='pipe:closed-before-EOF')
    # SubprocessSet::DoWork pairs running_[k] with fds[k] by position: while the poll results are consumed
    # running_ keeps its order - the only mutation is `i = running_.erase(i)` at the cursor
    dw = prog.fn('SubprocessSet::DoWork')
    muts = [e for e in dw.events('call') if mentions_field(e.get('recv'), 'SubprocessSet::running_') and
            lastname(e.get('name')) in ('erase', 'pop_back', 'push_back', 'insert', 'clear', 'swap', 'emplace_back', 'resize', 'assign')]
    thru = [e for e in dw.events('asg') if isinstance(strip(e['l']), dict) and strip(e['l']).get('k') in ('call', 'un', 'deref', 'idx') and
            any(x.get('k') == 'var' and dw.single_def(x['n']) is None and 'running_' in ' '.join(dstr(d.get('init')) for d in dw.events('decl') if d['n'] == x['n'])
                for x in walk(e['l']))]
    thru += [e for e in dw.events('call') if lastname(e.get('name')) == 'operator=' and isinstance(strip(e.get('recv')), dict) and
             strip(e.get('recv')).get('k') == 'call' and strip(e.get('recv')).get('op') == '*']
    okm = all(lastname(e.get('name')) == 'erase' for e in muts) and bool(muts) and not thru
    ctx.check('C20.W1', okm, dw.name, 'DoWork:running-order-disturbed', dw.loc,
              'running_ is only erased from at the cursor while poll results are matched by position (%s; writes through the cursor: %d)' % (
                  sorted({lastname(e.get('name')) for e in muts}), len(thru)))
    ctx.floor('C20.W1', 19)

    # ---- O1: failure header order ------------------------------------------------------------------
    R('C20.O1', 'O', 'for a failed command the FAILED line (outputs, exit code) and the full command '
      'line are printed before its output')
    failed = [e for e in bef.calls('LinePrinter::PrintOnNewLine') if mentions_var(e.get('args'), 'failed')]
    cmdl = [e for e in bef.calls('LinePrinter::PrintOnNewLine') if mentions_call(e.get('args'), 'Edge::EvaluateCommand')]
    ctx.check('C20.O1', len(failed) >= 1 and len(cmdl) == 1, bef.name, 'failure-header:sites', bef.loc, 'FAILED line and command line are printed')
    for e in failed + cmdl:
        guarded(ctx, 'C20.O1', bef, e, lambda a: is_var('exit_code')(strip(a).get('l') if strip(a).get('k') == 'bin' else None) and
                mentions_enum(a, 'ExitSuccess'), False, 'the failure header is printed only for a failed command', construct='failure-header:on-success')
        for p in prints:
            ctx.check('C20.O1', bef.ev_reaches(e, p) and not bef.ev_reaches(p, e), bef.name, 'failure-header:after-output', bef.where(e),
                      'the header precedes the command\'s output')
    for e in cmdl:
        ctx.check('C20.O1', all(bef.ev_reaches(f_, e) for f_ in failed), bef.name, 'failure-header:order', bef.where(e), 'FAILED line first, then the command')
    fd = [e for e in bef.events('decl') if e['n'] == 'failed']
    ctx.check('C20.O1', len(fd) == 1 and 'exit_code' in dstr(fd[0].get('init')) and 'FAILED' in dstr(fd[0].get('init')), bef.name,
              'failure-header:exit-code', bef.loc, 'the FAILED line carries the exit code')
    full_range(ctx, 'C20.O1', bef, 'Edge::outputs_', 'all outputs are named in the FAILED line')
    # the status line of the command precedes everything
    ps = [e for e in bef.calls('StatusPrinter::PrintStatus')]
    for e in ps:
        for p in prints + failed:
            ctx.check('C20.O1', bef.ev_reaches(e, p) and not bef.ev_reaches(p, e), bef.name, 'status-line:after-output', bef.where(e),
                      'the command\'s status line is printed before its FAILED header / output')
    # ... and it is always there: for a command that does not own the console, nothing lets BuildEdgeFinished reach the
    # FAILED header or the output without having printed the status line of that command just before
    for p_ in prints + failed:
        r = bef.find_path(None, lambda x: x is p_, from_succ=bef.entry, sensitive=False, is_blocker=lambda x: x in ps,
                          edge_ok=lambda b2, i2, s3: not any(pol is True and (mentions_call(a, 'Edge::use_console') or mentions_field(a, 'Edge::pool_'))
                                                             for k_, pol, a in bef.edge_facts(b2, i2)))
        ctx.check('C20.O1', r is None and bool(ps), bef.name, 'status-line:skipped-before-output', bef.where(p_),
                  'only a console command has its output / FAILED header printed without its status line directly before',
                  witness=None if r is None else {'blocks': r[0]})
    # ... and exactness: with a failed command nothing but the QUIET verbosity keeps the header (and the non-empty output) from
    # being printed - not the pool of the edge, not the terminal type
    def failed_world(b2, i2, s3):
        for k_, pol, a in bef.edge_facts(b2, i2):
            sa = strip(a)
            if isinstance(sa, dict) and sa.get('k') == 'bin' and sa.get('op') == '==' and mentions_var(sa, 'exit_code') and mentions_enum(sa, 'ExitSuccess') and pol is True:
                return False            # this is the successful command's side
            if pol is True and mentions_enum(a, 'BuildConfig::QUIET') and isinstance(sa, dict) and sa.get('k') == 'bin' and sa.get('op') == '==':
                return False            # the quiet side may skip everything
        return True
    for tgt, what in ((failed, 'FAILED line'), (cmdl, 'command line')):
        r = bef.find_path(None, lambda x: x['k'] == 'ret', from_succ=bef.entry, is_blocker=lambda x: any(x is y for y in tgt), edge_ok=failed_world, sensitive=False)
        r2 = None if r is not None else _reaches_exit_without(bef, tgt, failed_world)
        ctx.check('C20.O1', bool(tgt) and r is None and r2 is None, bef.name, 'failure-header:skipped:%s' % what.split()[0], bef.loc,
                  'for a failed command every path of BuildEdgeFinished (verbosity not QUIET) prints the %s' % what,
                  witness=None if (r is None and r2 is None) else {'blocks': (r[0] if r else r2)})
    ctx.floor('C20.O1', 13)

    # ---- R1: counters -----------------------------------------------------------------------------------
    R('C20.R1', 'R', 'started/finished/total have exactly the writers BuildEdgeStarted / '
      'BuildEdgeFinished / EdgeAddedToPlan-EdgeRemovedFromPlan (+ resets); every started non-phony '
      'edge is reported finished on every path of FinishCommand; plan totals mirror command_edges_')
    sp = 'StatusPrinter::'
    table = {
        sp + 'started_edges_': {sp + 'BuildEdgeStarted': '++', sp + 'BuildStarted': '= 0', sp + 'StatusPrinter': 'init'},
        sp + 'finished_edges_': {sp + 'BuildEdgeFinished': '++', sp + 'BuildStarted': '= 0', sp + 'StatusPrinter': 'init'},
        sp + 'total_edges_': {sp + 'EdgeAddedToPlan': '++', sp + 'EdgeRemovedFromPlan': '--', sp + 'BuildFinished': '= 0 (plan is gone)',
                             sp + 'StatusPrinter': 'init'},
        sp + 'running_edges_': {sp + 'BuildEdgeStarted': '++', sp + 'BuildEdgeFinished': '--', sp + 'BuildStarted': '= 0', sp + 'StatusPrinter': 'init'},
    }
    for fld, allowed in table.items():
        who_may_write(ctx, 'C20.R1', fld, allowed, 'progress counter')
        for f, e, kind, rhs in field_writes(prog, fld):
            exp = allowed.get(f.name, '')
            if exp.startswith('++') or exp.startswith('--'):
                ctx.check('C20.R1', e['op'] == exp[:2], f.name, 'counter-op:%s' % fld, f.where(e), '%s %s in %s' % (fld, e['op'], f.name))
                guarded(ctx, 'C20.R1', f, e, lambda a: True, None, 'unconditional', construct='counter-conditional:%s' % fld, forbidden=True) \
                    if fld.endswith(('started_edges_', 'finished_edges_', 'total_edges_')) else None
    ctx.table('C20.R1.writers', table)
    # totals do not leak from one build into the next one that uses the same status object
    bfin = prog.fn('StatusPrinter::BuildFinished')
    bst = prog.fn('StatusPrinter::BuildStarted')
    reset_total = any(mentions_field(e['l'], sp + 'total_edges_') and const_value(e.get('r')) == 0
                      for f in (bfin, bst) for e in f.events('asg'))
    ctx.check('C20.R1', reset_total, bfin.name, 'total:not-reset-between-builds', bfin.loc,
              'the plan total is cleared between two builds reported through the same status object (manifest regeneration)')
    for fld in ('started_edges_', 'finished_edges_'):
        ok = any(mentions_field(e['l'], sp + fld) and const_value(e.get('r')) == 0 for e in bst.events('asg'))
        ctx.check('C20.R1', ok, bst.name, 'reset:%s' % fld, bst.loc, '%s is reset when a build starts' % fld)
    se = prog.fn('Builder::StartEdge')
    bes = list(se.calls('Status::BuildEdgeStarted'))
    sc = list(se.calls('CommandRunner::StartCommand'))
    ctx.check('C20.R1', len(bes) == 1 and sc and se.dominates_ev(bes[0], sc[0]), se.name, 'started:not-before-spawn', se.loc,
              'BuildEdgeStarted is reported before the command is started')
    for e in bes:
        guarded(ctx, 'C20.R1', se, e, phony, False, 'phony edges are not reported as started', construct='started:phony')
    who_may_call(ctx, 'C20.R1', 'Status::BuildEdgeStarted', {'Builder::StartEdge': 'the only start site'}, 'start report')
    for e in calls:
        r = fcmd.find_path(None, lambda x: x['k'] == 'ret', from_succ=fcmd.entry, is_blocker=lambda x: x is e)
        ctx.check('C20.R1', r is None, fcmd.name, 'finished:skipped-on-some-path', fcmd.where(e),
                  'every path of FinishCommand reports BuildEdgeFinished (success or failure)',
                  witness=None if r is None else {'blocks': r[0]})
        guarded(ctx, 'C20.R1', fcmd, e, lambda a: mentions_field(a, 'BuildResult::CommandCompleted::status'), None,
                'the finish report does not depend on the result', construct='finished:guarded-by-result', forbidden=True)
    # plan <-> status pairing under the same !phony guard
    pairs = {}
    for fn_name, cnt_op, st_call in (('Plan::EdgeWanted', '++', 'Status::EdgeAddedToPlan'), ('Plan::CleanNode', '--', 'Status::EdgeRemovedFromPlan')):
        f = prog.fn(fn_name)
        cnt = [e for e in f.events('asg') if mentions_field(e['l'], 'Plan::command_edges_') and e['op'] == cnt_op]
        stc = list(f.calls(st_call))
        ok = len(cnt) == 1 and len(stc) == 1 and fact_holds(f.facts_at(cnt[0]), phony, False) and fact_holds(f.facts_at(stc[0]), phony, False)
        ctx.check('C20.R1', ok, fn_name, 'plan-status-pairing:%s' % st_call, f.loc,
                  '%s: command_edges_ %s and %s both only for non-phony edges' % (fn_name, cnt_op, st_call))
    who_may_call(ctx, 'C20.R1', 'Status::EdgeAddedToPlan', {'Plan::EdgeWanted': 'with ++command_edges_'}, 'plan total')
    who_may_call(ctx, 'C20.R1', 'Status::EdgeRemovedFromPlan', {'Plan::CleanNode': 'with --command_edges_'}, 'plan total')
    ctx.floor('C20.R1', 22)

    # ---- R2: console lock ------------------------------------------------------------------------------
    R('C20.R2', 'R', 'the terminal is locked for a console-pool command at start and unlocked at its '
      'finish and at BuildFinished; while locked everything printed is buffered; unlocking prints '
      'the whole buffer before clearing it')
    best = prog.fn('StatusPrinter::BuildEdgeStarted')
    locks = []
    for f in (best, bef, bfin):
        for e in f.calls('LinePrinter::SetConsoleLocked'):
            locks.append((f, e, const_value(e['args'][0])))
    ctx.check('C20.R2', sorted((f.name.split('::')[-1], v) for f, e, v in locks) ==
              [('BuildEdgeFinished', 0), ('BuildEdgeStarted', 1), ('BuildFinished', 0)], 'StatusPrinter', 'console-lock:sites', best.loc,
              'lock at start, unlock at finish and at BuildFinished: %s' % sorted((f.name.split('::')[-1], v) for f, e, v in locks))
    for f, e, v in locks:
        if f is bfin:
            guarded(ctx, 'C20.R2', f, e, lambda a: True, None, 'BuildFinished unlocks unconditionally', construct='console-lock:BuildFinished-conditional', forbidden=True)
        else:
            guarded(ctx, 'C20.R2', f, e, console, True, 'only a console-pool edge (un)locks the terminal', construct='console-lock:non-console-edge')
    # what BuildEdgeStarted does for a console-pool edge does not depend on anything else: in the world "console edge,
    # not a dry run" the lock is reached whatever the terminal is (piped output, -v, TERM=dumb interleave just the same),
    # and the start line of a console edge is printed in a dry run too (it is the only line such an edge ever gets)
    def world(f, fixed):
        """edge_ok that follows a branch only if it is compatible with the fixed truth values {predicate: bool}"""
        def ok(b, i, s2):
            for k, pol, atom in f.edge_facts(b, i):
                if '&&' in k or '||' in k:
                    continue
                for pred, val in fixed:
                    if pred(atom) and pol != val:
                        return False
            return True
        return ok
    is_console = lambda a: mentions_call(a, 'Edge::use_console') or mentions_field(a, 'Edge::pool_') or 'kConsolePool' in dstr(a)
    is_dry = lambda a: mentions_field(a, 'BuildConfig::dry_run')
    is_smart = lambda a: mentions_call(a, 'LinePrinter::is_smart_terminal') or mentions_field(a, 'LinePrinter::smart_terminal_')
    for smart in (True, False):
        for e in [x for x in best.calls('LinePrinter::SetConsoleLocked') if const_value(x['args'][0]) == 1]:
            r = best.find_path(None, lambda x: x is e, from_succ=best.entry, sensitive=False,
                               edge_ok=world(best, [(is_console, True), (is_dry, False), (is_smart, smart)]))
            ctx.check('C20.R2', r is not None, best.name, 'console-lock:depends-on-terminal', best.where(e),
                      'a console-pool edge locks the terminal at start whether or not the terminal is smart (%s)' % smart)
    for dry in (True, False):
        ps = list(best.calls('StatusPrinter::PrintStatus'))
        r = None
        for e in ps:
            r = r or best.find_path(None, lambda x: x is e, from_succ=best.entry, sensitive=False,
                                    edge_ok=world(best, [(is_console, True), (is_dry, dry), (is_smart, False)]))
        ctx.check('C20.R2', r is not None, best.name, 'console-start-line:depends-on-dry-run', best.loc,
                  'the start of a console-pool edge is announced on a dumb terminal / pipe, dry run or not (dry_run=%s)' % dry)
    who_may_write(ctx, 'C20.R2', 'LinePrinter::console_locked_', {'LinePrinter::SetConsoleLocked': 'the only switch', 'LinePrinter::LinePrinter': 'init'}, 'lock flag')
    scl = prog.fn('LinePrinter::SetConsoleLocked')
    pob = prog.fn('LinePrinter::PrintOrBuffer')
    pr = prog.fn('LinePrinter::Print')
    # while locked: PrintOrBuffer appends; Print stores the line
    for e in pob.calls('fwrite'):
        guarded(ctx, 'C20.R2', pob, e, lambda a: mentions_field(a, 'LinePrinter::console_locked_'), False,
                'nothing is written to the terminal while it is locked', construct='PrintOrBuffer:write-while-locked')
    app = [e for e in pob.events('call') if lastname(e.get('name')) == 'append' and mentions_field(e.get('recv'), 'LinePrinter::output_buffer_')]
    ctx.check('C20.R2', len(app) == 1 and mentions_var(app[0].get('args'), 'data') and mentions_var(app[0].get('args'), 'size'), pob.name,
              'PrintOrBuffer:append-args', pob.loc, 'held-back output is appended with its explicit length (NUL bytes survive)')
    for e in pr.calls():
        if e.get('name') in ('printf', 'fwrite', 'puts', 'fflush'):
            guarded(ctx, 'C20.R2', pr, e, lambda a: mentions_field(a, 'LinePrinter::console_locked_'), False,
                    'status lines are not written while the terminal is locked', construct='Print:write-while-locked')
    # locking: before the terminal is handed to the console command, the line in progress is ended and what stdout still
    # holds is written (PrintOnNewLine("") - Print() ends with a flush or a newline on a line-buffered stream) - whatever
    # the terminal is: on a pipe an unterminated last line of the previous command would otherwise come out after the
    # console command's own output
    lockw = [e for f0, e, kind, rhs in field_writes(prog, 'LinePrinter::console_locked_', [scl])]
    def locking_world(b, i, s2):
        for k, pol, a in scl.edge_facts(b, i):
            sa = strip(a)
            if isinstance(sa, dict) and sa.get('k') == 'var' and sa.get('n') == 'locked' and pol is False:
                return False
            if mentions_var(a, 'locked') and mentions_field(a, 'LinePrinter::console_locked_') and pol is True and \
                    isinstance(sa, dict) and sa.get('k') == 'bin' and sa.get('op') == '==':
                return False
        return True
    for e in lockw:
        r = scl.find_path(None, lambda x: x is e, from_succ=scl.entry, edge_ok=locking_world,
                          is_blocker=lambda x: x['k'] == 'call' and x.get('name') in ('LinePrinter::PrintOnNewLine', 'LinePrinter::Print', 'fflush'))
        ctx.check('C20.R2', r is None, scl.name, 'lock:line-not-ended', scl.where(e),
                  'taking the console lock ends the line in progress first, on every kind of terminal',
                  witness=None if r is None else {'blocks': r[0]})
    ctx.check('C20.R2', len(lockw) >= 1, scl.name, 'lock:flag-write', scl.loc, 'SetConsoleLocked stores the flag')
    # unlocking: flush before clear, and the buffer is passed whole (std::string, not c_str())
    fl = [e for e in scl.calls('LinePrinter::PrintOnNewLine') if mentions_field(e.get('args'), 'LinePrinter::output_buffer_')]
    clr = [e for e in scl.events('call') if lastname(e.get('name')) == 'clear' and mentions_field(e.get('recv'), 'LinePrinter::output_buffer_')]
    ctx.check('C20.R2', len(fl) == 1 and len(clr) == 1 and scl.dominates_ev(fl[0], clr[0]), scl.name, 'unlock:clear-before-flush', scl.loc,
              'the held-back output is printed before the buffer is cleared')
    for e in fl:
        a = strip(e['args'][0])
        ctx.check('C20.R2', isinstance(a, dict) and a.get('k') == 'mem' and a['n'] == 'LinePrinter::output_buffer_', scl.name,
                  'unlock:buffer-truncated', scl.where(e), 'the buffer is handed over as a std::string (no c_str() truncation at NUL): %s' % dstr(a))
        guarded(ctx, 'C20.R2', scl, e, is_var('locked'), False, 'the flush happens on unlock', construct='unlock:flush-guard')
    # shown exactly once: whatever is flushed on unlock is cleared before SetConsoleLocked returns
    for fld, printer in (('LinePrinter::output_buffer_', 'LinePrinter::PrintOnNewLine'), ('LinePrinter::line_buffer_', 'LinePrinter::Print')):
        for e in scl.calls(printer):
            if not mentions_field(e.get('args'), fld):
                continue
            r = scl.find_path(e, lambda x: x['k'] in ('exit', 'ret'),
                              is_blocker=lambda x, fld=fld: x['k'] == 'call' and lastname(x.get('name')) == 'clear' and
                              mentions_field(x.get('recv'), fld))
            ctx.check('C20.R2', r is None, scl.name, 'unlock:printed-not-cleared:%s' % fld.split('::')[1], scl.where(e),
                      'after %s was printed on unlock every path clears it (it is not shown a second time)' % fld,
                      witness=None if r is None else {'blocks': r[0]})
    pon = prog.fn('LinePrinter::PrintOnNewLine')
    for e in pon.calls('LinePrinter::PrintOrBuffer'):
        if mentions_var(e.get('args'), 'to_print'):
            ctx.check('C20.R2', 'to_print.size()' in dstr(e.get('args')), pon.name, 'PrintOnNewLine:length', pon.where(e),
                      'text is passed on with its full size()')
    ctx.floor('C20.R2', 20)

    # ---- O2: the line printer delivers ------------------------------------------------------------------
    R('C20.O2', 'O', 'LinePrinter::Print and PrintOrBuffer never drop what they are given: every path through them either '
      'writes the text to stdout or keeps it in the buffer that is flushed on unlock; stdout is line buffered')
    OUT = ('printf', 'fwrite', 'fputs', 'puts', 'WriteConsoleOutput', 'write')
    for name, param, keep in (('LinePrinter::Print', 'to_print', 'LinePrinter::line_buffer_'),
                              ('LinePrinter::PrintOrBuffer', 'data', 'LinePrinter::output_buffer_')):
        f = prog.fn(name)

        def delivers(x, param=param, keep=keep):
            if x.get('k') == 'call' and x.get('name') in OUT and mentions_var(x.get('args'), param):
                return True
            if x.get('k') == 'call' and mentions_field(x.get('recv'), keep) and mentions_var(x.get('args'), param) and \
                    (x.get('op') in ('=', '+=') or lastname(x.get('name')) in ('append', 'assign', 'operator=', 'operator+=', 'push_back', 'insert')):
                return True
            if x.get('k') == 'asg' and mentions_field(x.get('l'), keep) and mentions_var(x.get('r'), param):
                return True
            return False
        r = f.find_path(None, lambda x: x['k'] in ('ret', 'exit'), from_succ=f.entry, is_blocker=delivers)
        ctx.check('C20.O2', r is None, f.name, 'printer:drops-text', f.where(r[1]) if r and r[1].get('line') else f.loc,
                  '%s writes `%s` or keeps it in %s on every path' % (name, param, keep.split('::')[1]),
                  witness=None if r is None else {'blocks': r[0]})
    # stdout is line buffered for the whole run: command output written with fwrite() (no flush) reaches a pipe or file
    # line by line, in order with the status lines
    sv = [(f, e) for f, e in calls_to(prog, 'setvbuf') if mentions_var(e['args'][0], 'stdout')]
    ctx.check('C20.O2', len(sv) >= 1, 'real_main', 'stdout:setvbuf-absent', 'src/ninja.cc', 'stdout buffering is set explicitly')
    for f, e in sv:
        m = strip(e['args'][2])
        ctx.check('C20.O2', const_value(m) == 1 or (isinstance(m, dict) and m.get('k') in ('int', 'enum', 'macro') and dstr(m) in ('1', '_IOLBF')),
                  f.name, 'stdout:not-line-buffered', f.where(e), 'setvbuf(stdout, ..., _IOLBF, ...): mode is %s' % dstr(m)[:40])
        ctx.check('C20.O2', f.name == 'real_main' and f.dominates_ev(e, next(iter(f.calls('ReadFlags')), e)), f.name, 'stdout:setvbuf-late',
                  f.where(e), 'the mode is set at the start of real_main, unconditionally')
        r = f.find_path(None, lambda x: x['k'] == 'call' and x.get('name') in ('NinjaMain::RunBuild', 'ReadFlags'), from_succ=f.entry,
                        is_blocker=lambda x, e=e: x is e)
        ctx.check('C20.O2', r is None, f.name, 'stdout:setvbuf-conditional', f.where(e), 'every path to the flag parser / the build passes the setvbuf')
    ctx.floor('C20.O2', 5)



def _reaches_exit_without(f, blockers, edge_ok=None):
    seen, st = set(), [f.entry]
    while st:
        b = st.pop()
        if b in seen or b is None:
            continue
        seen.add(b)
        if any(any(e is k for k in blockers) for e in f.blocks[b]['ev']):
            continue
        if b == f.exit:
            return [b]
        st += [x for i, x in enumerate(f.blocks[b]['succ']) if x is not None and (edge_ok is None or edge_ok(b, i, x))]
    return None
