"""Writes /verif/MANIFEST.json from the table below (single source of truth)."""
import json
import os

VERIF = os.path.dirname(os.path.dirname(os.path.abspath(__file__)))

CLAIMED = {
    # id: (design section, technique, what is decided)
}

NOT_APPLICABLE = {
}


def load_table():
    import importlib.util
    spec = importlib.util.spec_from_file_location('claims', os.path.join(VERIF, 'nv', 'claims.py'))
    m = importlib.util.module_from_spec(spec)
    spec.loader.exec_module(m)
    return m.CLAIMS


def main():
    claims = load_table()
    all_ids = ['C%02d' % i for i in range(1, 21)]
    checks = []
    for pid in all_ids:
        if pid not in claims:
            continue
        c = claims[pid]
        checks.append({
            'property_id': pid,
            'quick_cmd': 'python3 nv/check.py %s --tier quick' % pid,
            'thorough_cmd': 'python3 nv/check.py %s --tier thorough' % pid,
            'evidence_file': '/verif/evidence/%s.json' % pid,
            'replay_cmd_template': 'python3 nv/check.py --replay {path}',
            'engine': 'nv',
            'level_claimed': {
                'category': 'other',
                'text': ('Static decision, over all CFG paths / call sites of the current /repo source, '
                         'of these structural clauses (each a necessary condition of the property): '
                         + c['decides'] + ' The behavioural statement as a whole is NOT decided: '
                         + c['not_decided']),
                'design_ref': 'DESIGN.md section ' + c['design'],
            },
            'level_note': ('Trusted: clang 14 front end and CFG builder, the nvx fact extractor, the nv '
                           'rule engine, and the hand-confirmed anchor/exemption tables printed in the '
                           'evidence. Guard facts track kills for locals, parameters, direct field writes '
                           'and callee mod-sets (field-name granularity). Exit 2 = anchor vanished / '
                           'instance floor not met (analysis broken), never reported as pass.'),
            'technique': c['technique'],
        })
    na = []
    for pid in all_ids:
        if pid in claims:
            continue
        na.append({'property_id': pid, 'reason': NOT_APPLICABLE.get(pid) or PENDING})
    m = {
        'version': 1,
        'setup_cmd': 'make -C /verif all',
        'hooks': {
            'guard': 'NINJA_VERIF_STATIC',
            'enable': 'none needed: the analysis reads /repo sources as they are; no instrumentation '
                      'or annotation was added to /repo',
            'baseline_off_cmd': 'cmake -G Ninja -B /repo/_build -S /repo >/dev/null && cmake --build '
                                '/repo/_build >/dev/null && ctest --test-dir /repo/_build -j8 --timeout 900',
            'source_commits': [],
            'add_only': True,
        },
        'engines': [
            {'name': 'nvx', 'path': 'nv/nvx.cc', 'serves_properties': sorted(claims),
             'kind_free_text': 'clang-14 libTooling fact extractor: resolved callees, CFG '
                               '(setAllAlwaysAdd), expression descriptors, classes, enums, tables'},
            {'name': 'nv', 'path': 'nv/', 'serves_properties': sorted(claims),
             'kind_free_text': 'Python rule engine: guard-fact must-dataflow with wrapper inlining '
                               'and mod-set kills, path-sensitive must-pass-through, who-may-call/'
                               'write, provenance, error discipline, pairing, table agreement, effect '
                               'closure, recursion discipline, taint bounds, value-set abstract '
                               'interpretation'},
        ],
        'checks': checks,
        'not_applicable': na,
        'notes': 'Static analysis only: no registered command executes ninja, its tests, or a model. '
                 'See DESIGN.md. Known findings: known_findings.json.',
    }
    json.dump(m, open(os.path.join(VERIF, 'MANIFEST.json'), 'w'), indent=1)
    print('MANIFEST.json: %d checks, %d not_applicable' % (len(checks), len(na)))


PENDING = ('check not yet registered in this revision of /verif (rules designed in DESIGN.md section 5 '
           'are still being implemented); not claimed until its check exists and passes')

if __name__ == '__main__':
    main()
