"""Rule templates (DESIGN.md section 4) as reusable functions over the program model."""
from facts import AnalysisBroken
from model import (dstr, strip, walk, fact_holds, facts_str, mentions_field, mentions_call,
                   mentions_var, mentions_enum, ret_value_class, always_fails, norm_cond,
                   const_value, _written_names, MUTATORS, basename)


# ---- site finders --------------------------------------------------------------------------------

def field_writes(prog, field, fns=None):
    """All events that (may) write field `field`: assignments, ++/--, mutating member calls on
    it, and passing it by non-const reference / address.  Yields (Fn, event, kind, rhs)."""
    for f in (fns if fns is not None else prog.functions.values()):
        for e in f.events():
            if e['k'] == 'asg':
                l = strip(e['l'])
                if isinstance(l, dict) and l.get('k') == 'mem' and l['n'] == field:
                    yield f, e, e['op'], e.get('r')
                elif isinstance(l, dict) and l.get('k') == 'idx' and \
                        isinstance(strip(l['b']), dict) and strip(l['b']).get('n') == field:
                    yield f, e, 'elem' + e['op'], e.get('r')
            elif e['k'] == 'call':
                r = e.get('recv')
                nm = basename(e.get('name') or '')
                if isinstance(r, dict):
                    sr = strip(r)
                    if sr.get('k') == 'mem' and sr['n'] == field and \
                            (nm in MUTATORS or e.get('op') in ('=', '+=', '-=', '++', '--')):
                        yield f, e, nm, (e.get('args') or [None])[0]
                for kind, n in _written_names(f, e):
                    if kind == 'mem' and n == field and not (
                            isinstance(r, dict) and strip(r).get('n') == field):
                        yield f, e, 'byref', None


def decided(efs):
    """The facts of an edge that decide something on their own: a disjunctive composite (`a && b` known false,
    `a || b` known true) names several atoms without fixing any of them and is left out."""
    out = []
    for ef in efs:
        a = strip(ef[2])
        if isinstance(a, dict) and a.get('k') == 'bin' and a.get('op') in ('&&', '||') and (a['op'] == '&&') != bool(ef[1]):
            continue
        out.append(ef)
    return out


def calls_to(prog, name, fns=None):
    """(Fn, event) for every call whose static callee has the given qualified name."""
    for f in (fns if fns is not None else prog.functions.values()):
        for e in f.events('call'):
            if e.get('name') == name:
                yield f, e


def in_repo_src(f):
    return True


# ---- template G ------------------------------------------------------------------------------------

def guarded(ctx, rid, f, e, pred, polarity, what, construct=None, forbidden=False):
    """MustGuard: the guard facts at event e contain an atom satisfying pred with the polarity
    (forbidden=True: must NOT contain)."""
    facts = f.facts_at(e)
    has = fact_holds(facts, pred, polarity)
    ok = (not has) if forbidden else has
    ctx.check(rid, ok, f.name, construct or ('%s@%s' % (what, e.get('name') or e.get('src', ''))),
              f.where(e), '%s — at `%s` in %s; facts: %s' % (
                  what, e.get('src', e.get('name', ''))[:80], f.name, facts_str(facts)[:8]))
    return ok


def atom_is_call(name):
    return lambda a: isinstance(strip(a), dict) and strip(a).get('k') == 'call' and \
        strip(a).get('name') == name


def atom_mentions_call(name):
    return lambda a: mentions_call(a, name)


def atom_mentions_field(field):
    return lambda a: mentions_field(a, field)


def atom_cmp(op, lpred, rpred):
    """atom is `l op r` with lpred(l) and rpred(r)."""
    def p(a):
        a = strip(a)
        return isinstance(a, dict) and a.get('k') == 'bin' and a['op'] == op and \
            lpred(a['l']) and rpred(a['r'])
    return p


def is_enum(name):
    return lambda d: isinstance(strip(d), dict) and strip(d).get('k') == 'enum' and \
        strip(d)['n'] == name


def is_var(name):
    """The variable `name`; a copy of it made by helper inlining (`name@k`) counts as the same name."""
    return lambda d: isinstance(strip(d), dict) and strip(d).get('k') == 'var' and \
        (strip(d)['n'] == name or strip(d)['n'].split('@')[0] == name)


def stores_to(name):
    """The left side of an assignment is the variable `name`, directly or through a pointer out-parameter (`*name = ..`)."""
    def p(d):
        d = strip(d)
        if isinstance(d, dict) and d.get('k') == 'un' and d.get('op') == '*':
            d = strip(d.get('e'))
        return is_var(name)(d)
    return p


def is_field(name):
    return lambda d: isinstance(strip(d), dict) and strip(d).get('k') == 'mem' and \
        strip(d)['n'] == name


def has_field(name):
    return lambda d: mentions_field(d, name)


def anything(d):
    return True


# ---- template W ----------------------------------------------------------------------------------

def who_may_call(ctx, rid, name, allowed, what):
    """Every call site of `name` lies in a function listed in `allowed` {fn name: reason}."""
    n = 0
    for f, e in calls_to(ctx.prog, name):
        n += 1
        ctx.check(rid, f.name in allowed, f.name, 'call:%s' % name, f.where(e),
                  '%s: %s may be called from %s (%s)' % (what, name, f.name,
                                                          allowed.get(f.name, 'NOT IN TABLE')),
                  msg='%s: unexpected caller %s of %s' % (what, f.name, name))
    return n


def who_may_write(ctx, rid, field, allowed, what):
    """Every write of `field` lies in a function listed in `allowed` {fn name: reason}."""
    n = 0
    cls = field.rsplit('::', 1)[0]
    for f, e, kind, rhs in field_writes(ctx.prog, field):
        if e.get('init') and f.cls == cls and f.d.get('ctor') and f.name not in allowed:
            continue            # member initialisation in the class's own constructor
        n += 1
        ctx.check(rid, f.name in allowed, f.name, 'write:%s' % field, f.where(e),
                  '%s: %s written (%s) in %s (%s)' % (what, field, kind, f.name,
                                                      allowed.get(f.name, 'NOT IN TABLE')),
                  msg='%s: unexpected writer %s of %s (%s)' % (what, f.name, field,
                                                               e.get('src', '')))
    return n


# ---- template O ----------------------------------------------------------------------------------

def must_pass(ctx, rid, f, is_through, is_target, what, construct, start=None, from_succ=None,
              edge_ok=None):
    """Every path from function entry (or from just after `start`) to an event satisfying
    is_target passes an event satisfying is_through.  Reports a witness path otherwise."""
    if start is None and from_succ is None:
        from_succ = f.entry
    r = f.find_path(start, is_target, is_blocker=is_through, from_succ=from_succ, edge_ok=edge_ok)
    if r is None:
        ctx.inst(rid, f.loc, '%s — in %s: all paths pass' % (what, f.name))
        return True
    path, hit = r
    ctx.violation(rid, f.name, construct, 'src/%s:%s' % (f.file, hit.get('line', f.line)),
                  '%s — a path in %s avoids it' % (what, f.name),
                  witness={'blocks': path, 'reaches': hit.get('src') or hit.get('k')})
    return False


def dominated_by(ctx, rid, f, e, is_dom, what, construct):
    """Event e is dominated by some event satisfying is_dom (same function)."""
    r = f.find_path(None, lambda x: x is e, is_blocker=is_dom, from_succ=f.entry)
    ok = r is None
    ctx.check(rid, ok, f.name, construct, f.where(e),
              '%s — `%s` in %s' % (what, e.get('src', e.get('name', ''))[:70], f.name),
              witness=None if ok else {'blocks': r[0]})
    return ok


# ---- template E1 ---------------------------------------------------------------------------------

def fallible(prog, callee_name, e):
    """Is the static callee of call event e fallible by ninja's convention?"""
    fs = prog.by_name.get(callee_name, [])
    for fn in fs:
        if fn.retk in ('bool', 'ptr', 'enum', 'record', 'other', 'int') and any(
                p['n'] in ('err', 'error') and p['ty'].startswith(('std::string *', 'string *'))
                for p in fn.params):
            if fn.retk == 'int' and callee_name not in ():
                continue
            return fn
    return None


def failure_successor(f, e):
    """If call e's value (possibly negated / compared) decides its block's terminator, return
    (block, index of the successor taken when the call FAILED i.e. returned false/null)."""
    bid = e['_b']
    c = f.eff_cond(bid)
    if c is None:
        return None
    atom, pol = norm_cond(None, c)
    a = strip(atom)
    if not (isinstance(a, dict) and a.get('k') == 'call' and a.get('fn') == e.get('fn') and
            a.get('line', None) in (None, e.get('line')) and dstr(a) == dstr(_as_desc(e))):
        return None
    # later events in the block must not be other calls deciding the condition
    b = f.blocks[bid]
    if len(b['succ']) != 2:
        return None
    # pol True: succ[0] is "call returned true"; failure is succ[1]
    return bid, (1 if pol else 0)


def _as_desc(e):
    d = {k: v for k, v in e.items() if not k.startswith('_') and k not in ('line', 'src', 'disc')}
    return d


def _stored_result_lost(prog, f, call):
    """The call's result is the whole right-hand side of a store to a local v: returns (v, event, how, blocks) when some
    path from the store overwrites v, or reaches a success return that does not mention v, before any read of v
    (condition, argument, right-hand side, return).  None when the result is always looked at (or is not stored so)."""
    evs = f.blocks[call['_b']]['ev']
    store = None
    for x in evs[call['_i'] + 1:]:
        if x['k'] in ('asg', 'decl'):
            rhs = strip(x.get('r') if x['k'] == 'asg' else x.get('init'))
            if isinstance(rhs, dict) and rhs.get('k') == 'call' and rhs.get('fn') == call.get('fn') and \
                    (x['k'] == 'decl' or x.get('op') == '='):
                store = x
            break
        if x['k'] == 'call':
            continue
        break
    if store is None:
        return None
    if store['k'] == 'decl':
        v = store['n']
    else:
        l = strip(store['l'])
        if not (isinstance(l, dict) and l.get('k') == 'var' and l.get('vk') == 'local'):
            return None
        v = l['n']

    def reads(x):
        if x['k'] == 'asg':
            l2 = strip(x['l'])
            pure = isinstance(l2, dict) and l2.get('k') == 'var' and l2['n'] == v and x.get('op') == '='
            if pure:
                return mentions_var(x.get('r'), v)
            return mentions_var(x.get('l'), v) or mentions_var(x.get('r'), v)
        if x['k'] == 'decl':
            return mentions_var(x.get('init'), v)
        if x['k'] == 'call':
            return mentions_var(x.get('args'), v) or mentions_var(x.get('recv'), v)
        if x['k'] == 'ret':
            return mentions_var(x.get('e'), v)
        return any(mentions_var(x.get(k2), v) for k2 in ('e', 'b', 'i'))

    def overwrites(x):
        if x['k'] == 'asg':
            l2 = strip(x['l'])
            return isinstance(l2, dict) and l2.get('k') == 'var' and l2['n'] == v and x.get('op') == '='
        return x['k'] == 'decl' and x['n'] == v
    seen = set()
    work = [(store['_b'], store['_i'] + 1, [store['_b']])]
    while work:
        bid, i0, path = work.pop()
        stop = False
        for x in f.blocks[bid]['ev'][i0:]:
            if reads(x):
                stop = True
                break
            if overwrites(x):
                return v, x, 'overwritten', path
            if x['k'] == 'ret':
                if ret_value_class(prog, f, x) == 'success':
                    return v, x, 'a success value is returned', path
                stop = True
                break
        if stop:
            continue
        t = f.blocks[bid].get('term')
        if t and 'cond' in t and mentions_var(t['cond'], v):
            continue
        for s2 in f.blocks[bid]['succ']:
            if s2 is None or s2 in seen:
                continue
            seen.add(s2)
            work.append((s2, 0, path + [s2]))
    return None


def error_discipline(ctx, rid, fns, ignore=None, soft_ok=None):
    """E1 over the given functions.  For every call of a fallible function:
    (a) the result is used (not discarded), unless the (caller, callee) pair is in `ignore`;
    (b) when the result directly decides a branch, the first return reached on the failure
        side is not a provable success value (I1), unless a soft-failure split on `err` (I2)
        or a no-return call lies in between."""
    prog = ctx.prog
    ignore = ignore or {}
    n = 0
    for f in fns:
        for e in f.events('call'):
            nm = e.get('name')
            callee = fallible(prog, nm, e) if nm else None
            if callee is None:
                continue
            n += 1
            if e.get('disc') and always_fails(prog, callee):
                ctx.inst(rid, f.where(e), '%s always returns failure (message helper); its value '
                         'carries no information, discarded in %s' % (nm, f.name))
                continue
            if e.get('disc'):
                key = (f.name, nm)
                ctx.check(rid, key in ignore, f.name, 'discarded:%s' % nm, f.where(e),
                          'result of fallible %s is used in %s%s' % (
                              nm, f.name, (' (ignored by table: %s)' % ignore[key])
                              if key in ignore else ''),
                          msg='result of fallible %s discarded in %s' % (nm, f.name))
                continue
            fs = failure_successor(f, e)
            if fs is None:
                lost = _stored_result_lost(prog, f, e)
                if lost is not None:
                    ctx.violation(rid, f.name, 'failure-of:%s stored-in:%s overwritten-unread' % (nm, lost[0]), f.where(lost[1]),
                                  'the result of fallible %s is stored in `%s` in %s and %s before anything looked at it' % (
                                      nm, lost[0], f.name, lost[2]), witness={'call': f.where(e), 'blocks': lost[3]})
                    continue
                ctx.inst(rid, f.where(e), 'result of %s is consumed in %s (assigned / returned '
                         '/ argument)' % (nm, f.name))
                continue
            bid, idx = fs
            succ = f.blocks[bid]['succ'][idx]

            def is_ret(x):
                return x['k'] in ('ret', 'exit')

            # walk the failure side; a branch on err->empty() ends the obligation on the side
            # where err is empty (I2)
            def edge_ok(b, i, s, f=f):
                ef = f.edge_fact(b, i)
                if ef is None:
                    return True
                key, pol, atom = ef
                a = strip(atom)
                if isinstance(a, dict) and a.get('k') == 'call' and \
                        basename(a.get('name') or '') == 'empty' and \
                        'err' in dstr(a.get('recv')):
                    return not pol      # follow only the err-non-empty side
                return True
            seen_ret = [0]

            def is_success_ret(x):
                if x['k'] != 'ret':
                    return False
                seen_ret[0] += 1
                return ret_value_class(prog, f, x) == 'success'

            def stops(x):
                # any other return ends the path; in soft-report functions a Warning/Error call
                # ends the obligation (reported, deliberately non-fatal)
                if x['k'] == 'ret':
                    return True
                if x['k'] == 'call' and f.name in (soft_ok or {}) and \
                        x.get('name') in ('Warning', 'Error', 'Status::Warning', 'Status::Error'):
                    return True
                return False
            # the failure condition itself is the first fact on the path
            ef0 = f.edge_fact(bid, idx)
            init = [(ef0[0], ef0[1])] if ef0 else []
            r = f.find_path(None, is_success_ret, is_blocker=lambda x: stops(x) and not is_success_ret(x),
                            from_succ=succ, edge_ok=edge_ok, init_facts=init)
            bad = None
            if r is not None:
                bad = (r[1], r[0])
            seen_ret = seen_ret[0]
            if bad:
                hit, path = bad
                ctx.violation(rid, f.name, 'failure-edge-of:%s returns:%s' % (nm, dstr(hit.get('e'))),
                              f.where(hit),
                              'failure of %s reaches `%s`, a success value, in %s' % (
                                  nm, hit.get('src'), f.name),
                              witness={'call': f.where(e), 'blocks': path})
            else:
                ctx.inst(rid, f.where(e), 'failure edge of %s in %s reaches only failure / '
                         'unknown-valued returns (%d returns examined)' % (nm, f.name, seen_ret))
    return n


# ---- provenance ----------------------------------------------------------------------------------

def origins(f, d, depth=0, seen=None):
    """Backward slice of descriptor d inside function f down to origin descriptors (fields,
    parameters, call results, literals).  Locals are replaced by all their definitions
    (flow-insensitive).  Iterator/range-for plumbing is resolved to {'k':'elem','of':<container>}."""
    if seen is None:
        seen = set()
    d = unwrap_conv(d)
    if not isinstance(d, dict):
        return []
    k = d.get('k')
    if k == 'var' and d.get('vk') in ('local', 'static'):
        if d['n'] in seen or depth > 12:
            return [d]
        seen = seen | {d['n']}
        out = []
        defs = []
        for e in f.events():
            if e['k'] == 'decl' and e['n'] == d['n'] and e.get('init') is not None:
                defs.append(e['init'])
            elif e['k'] == 'asg' and isinstance(strip(e['l']), dict) and \
                    strip(e['l']).get('k') == 'var' and strip(e['l'])['n'] == d['n'] and \
                    e.get('r') is not None:
                defs.append(e['r'])
        defs = [x for x in defs if not (isinstance(strip(x), dict) and strip(x).get('k') == 'ctor'
                                        and not strip(x).get('args'))]
        if not defs:
            return [d]          # e.g. a local container: it is its own origin (filled by mutation)
        for x in defs:
            out += origins(f, x, depth + 1, seen)
        return out
    if k == 'call':
        nm = basename(d.get('name') or '')
        op = d.get('op')
        if op in ('*', '->') and 'recv' in d:
            # *it / it-> : element of the container the iterator ranges over
            src = origins(f, d['recv'], depth + 1, seen)
            out = []
            for s in src:
                s2 = strip(s)
                if isinstance(s2, dict) and s2.get('k') == 'call' and \
                        lastname(s2.get('name')) in ('begin', 'end', 'rbegin', 'find',
                                                           'cbegin', 'lower_bound'):
                    out.append({'k': 'elem', 'of': s2.get('recv'), 'via': lastname(s2['name'])})
                elif isinstance(s2, dict) and s2.get('k') == 'elem':
                    out.append(s2)
                else:
                    out.append({'k': 'elem', 'of': s2, 'via': 'deref'})
            return out
        if 'recv' in d and depth < 10:
            # member call: the receiver is resolved too (x->path() of an element of outputs_)
            rs = origins(f, d['recv'], depth + 1, seen)
            return [dict(d, recv=r) for r in rs] if rs else [d]
        return [d]
    if k == 'un' and d['op'] == '*':
        src = origins(f, d['e'], depth + 1, seen)
        out = []
        for s in src:
            s2 = strip(s)
            if isinstance(s2, dict) and s2.get('k') == 'call' and \
                    lastname(s2.get('name')) in ('begin', 'end', 'find'):
                out.append({'k': 'elem', 'of': s2.get('recv'), 'via': lastname(s2['name'])})
            else:
                out.append({'k': 'un', 'op': '*', 'e': s2})
        return out
    if k == 'cond':
        return origins(f, d['t'], depth + 1, seen) + origins(f, d['f'], depth + 1, seen)
    return [d]


def local_container_pushes(f, o):
    """Collect-then-act: if origin `o` is an element of a *local* container of f that starts empty and is only filled
    by push_back / emplace_back (`v[k]`, `v.front()`, `*it` / range-for element of v), the list of (push event, pushed
    value); otherwise [].  The facts that select an element are the facts at its push, not at its later use."""
    o = strip(o)
    cont = None
    if isinstance(o, dict) and o.get('k') == 'call' and 'recv' in o and \
            (o.get('op') == '[]' or lastname(o.get('name')) in ('front', 'back', 'at', 'operator[]')):
        cont = strip(unwrap_conv(o['recv']))
    elif isinstance(o, dict) and o.get('k') == 'elem':
        cont = strip(unwrap_conv(o.get('of')))
    if not (isinstance(cont, dict) and cont.get('k') == 'var' and cont.get('vk') == 'local'):
        return []
    name = cont['n']
    # the container has no definition other than an empty construction, and nothing but appends changes it
    for e in f.events():
        if e['k'] == 'decl' and e['n'] == name and e.get('init') is not None:
            i = strip(e['init'])
            if not (isinstance(i, dict) and i.get('k') == 'ctor' and not i.get('args')):
                return []
        if e['k'] == 'asg' and isinstance(strip(e['l']), dict) and strip(e['l']).get('k') == 'var' and strip(e['l'])['n'] == name:
            return []
    out = []
    for e in f.events('call'):
        r = strip(e.get('recv'))
        if not (isinstance(r, dict) and r.get('k') == 'var' and r.get('n') == name):
            continue
        ln = lastname(e.get('name'))
        if ln in ('push_back', 'emplace_back') and e.get('args'):
            out.append((e, e['args'][0]))
        elif ln in ('insert', 'assign', 'swap', 'resize', 'emplace', 'operator='):
            return []           # filled some other way: not understood
    return out


# ---- loops ----------------------------------------------------------------------------------------

def _plain_field(d, field=None):
    """descriptor is exactly a (possibly nested-base) member `field`, no arithmetic.  `field`
    may also be a predicate over the container descriptor (e.g. a parameter by name)."""
    d = strip(d)
    if callable(field):
        return isinstance(d, dict) and bool(field(d))
    return isinstance(d, dict) and d.get('k') == 'mem' and (field is None or d['n'] == field)


def unwrap_conv(d):
    """Iterator conversions (iterator -> const_iterator) are transparent."""
    d = strip(d)
    while isinstance(d, dict) and d.get('k') == 'ctor' and len(d.get('args') or []) == 1 and \
            any(t in (d.get('ty') or '') for t in ('iterator', 'StringPiece', 'basic_string', 'string')):
        d = strip(d['args'][0])
    # the same conversion written as a conversion operator of the iterator class (`operator const_iterator()`)
    while isinstance(d, dict) and d.get('k') == 'call' and not d.get('args') and isinstance(d.get('recv'), dict) and \
            '::operator ' in (d.get('name') or '') and 'iterator' in (d.get('name') or '').rsplit('::operator ', 1)[1]:
        d = strip(d['recv'])
    return d


def _resolve_local(f, d, depth=0):
    """Replace a single-definition local by its initialiser (repeatedly)."""
    d = unwrap_conv(d)
    while depth < 6 and isinstance(d, dict) and d.get('k') == 'var' and d.get('vk') == 'local':
        init = f.single_def(d['n'])
        if init is None:
            break
        d = unwrap_conv(init)
        depth += 1
    return d


def lastname(name):
    """Unqualified function name: `EdgeInputsRange::end` -> `end`, std names via basename."""
    out = []
    depth = 0
    for c in (name or ''):
        if c == '<':
            depth += 1
        elif c == '>':
            depth -= 1
        elif depth == 0:
            out.append(c)
    n = ''.join(out)
    if 'operator' in n:
        return n[n.index('operator'):]
    return n.rsplit('::', 1)[-1]


def loops_over(f, field):
    """Loops of f that iterate over container member `field` (range-for, iterator loop, index
    loop).  Each: {'header': block, 'body': block, 'exit': block, 'full': bool, 'style': str,
    'var': loop variable, 'bound': str, 'line': int}.  full = the iteration space is exactly
    [begin(), end()) / [0, size()) of the member, without offsets."""
    out = []
    for bid, b in f.blocks.items():
        t = b.get('term')
        if not t or t['kind'] not in ('for', 'while', 'range', 'do') or len(b['succ']) != 2:
            continue
        c = f.eff_cond(bid)
        c0 = strip(c)
        if not isinstance(c0, dict):
            continue
        # `flag && it != end` (a loop that also stops on a flag, like a break): the conjunct that compares the cursor
        if c0.get('k') == 'bin' and c0.get('op') == '&&':
            parts, st = [], [c0]
            while st:
                x = strip(st.pop())
                if isinstance(x, dict) and x.get('k') == 'bin' and x.get('op') == '&&':
                    st += [x['r'], x['l']]
                elif isinstance(x, dict):
                    parts.append(x)
            cmpp = [x for x in parts if (x.get('k') == 'call' and (x.get('op') in ('!=', '<') or basename(x.get('name') or '').startswith('operator!='))) or
                    (x.get('k') == 'bin' and x.get('op') in ('!=', '<', '<='))]
            if len(cmpp) == 1:
                c0 = cmpp[0]
        l = r = None
        op = None
        if c0.get('k') == 'call' and c0.get('op') in ('!=', '<') or \
                (c0.get('k') == 'call' and basename(c0.get('name') or '').startswith('operator!=')):
            args = ([c0['recv']] if 'recv' in c0 else []) + c0.get('args', [])
            if len(args) == 2:
                l, r = args
                op = '!='
        elif c0.get('k') == 'bin' and c0['op'] in ('!=', '<', '<='):
            l, r, op = c0['l'], c0['r'], c0['op']
        if l is None:
            continue
        lv = strip(l)
        if not (isinstance(lv, dict) and lv.get('k') == 'var'):
            continue
        var = lv['n']
        # definitions of the loop variable (initial value)
        inits = [e.get('init') for e in f.events('decl') if e['n'] == var and e.get('init') is not None]
        init = unwrap_conv(inits[0]) if inits else None
        rr = _resolve_local(f, r)
        info = {'header': bid, 'body': b['succ'][0], 'exit': b['succ'][1], 'var': var,
                'line': t.get('line'), 'style': None, 'full': False, 'bound': dstr(rr)}
        # iterator styles
        if isinstance(rr, dict) and rr.get('k') == 'call' and \
                lastname(rr.get('name')) in ('end', 'cend'):
            cont = _resolve_local(f, rr.get('recv'))
            if _plain_field(cont, field):
                info['style'] = 'range' if t['kind'] == 'range' else 'iterator'
                ok_init = isinstance(init, dict) and init.get('k') == 'call' and \
                    lastname(init.get('name')) in ('begin', 'cbegin') and \
                    _plain_field(_resolve_local(f, init.get('recv')), field)
                info['full'] = bool(ok_init)
                out.append(info)
                continue
        # iterator with arithmetic on the bound: `end() - k`
        if any(x.get('k') == 'call' and lastname(x.get('name')) in ('end', 'begin') and
               _plain_field(_resolve_local(f, x.get('recv')), field) for x in walk(rr)) or \
                (init is not None and any(
                    x.get('k') == 'call' and lastname(x.get('name')) in ('end', 'begin') and
                    _plain_field(_resolve_local(f, x.get('recv')), field) for x in walk(init))):
            info['style'] = 'iterator-offset'
            info['full'] = False
            out.append(info)
            continue
        # index style: body subscripts field with the loop variable
        uses = False
        for e in f.events('call'):
            if e.get('op') == '[]' and _plain_field(_resolve_local(f, e.get('recv')), field) and \
                    any(mentions_var(a, var) for a in e.get('args', [])):
                uses = True
        if uses:
            info['style'] = 'index'
            full = isinstance(rr, dict) and rr.get('k') == 'call' and \
                lastname(rr.get('name')) == 'size' and _plain_field(_resolve_local(f, rr.get('recv')), field) \
                and op in ('<', '!=') and init is not None and const_value(init) == 0
            info['full'] = bool(full)
            out.append(info)
    return out


def full_range(ctx, rid, f, field, what, construct=None, need=1):
    """The function iterates over `field` and every such loop covers the full range."""
    ls = loops_over(f, field)
    if len(ls) < need:
        ctx.violation(rid, f.name, construct or ('no-loop-over:%s' % field), f.loc,
                      '%s — %s no longer iterates over %s' % (what, f.name, field))
        return False
    ok = True
    for l in ls:
        ok &= ctx.check(rid, l['full'], f.name, construct or ('partial-loop-over:%s' % field),
                        'src/%s:%s' % (f.file, l['line']),
                        '%s — %s loop over %s in %s covers the whole container (bound: %s)' % (
                            what, l['style'], field, f.name, l['bound']))
    return ok


def every_iteration_passes(ctx, rid, f, loop, is_through, what, construct):
    """On every path through one iteration of `loop` (from the body entry back to the header or
    out of the loop) an event satisfying is_through is executed; paths ending in a return are
    exempt (failure exits)."""
    hdr = loop['header']

    def tgt(x):
        return False
    # search from body entry to the header block (back edge): model by edge_ok stopping there
    hit = [None]

    def edge_ok(b, i, s):
        if s == hdr:
            hit[0] = b
            return False
        return True
    # we need paths that reach the back edge without is_through: run search with blocker and
    # observe whether the back edge was seen
    f.find_path(None, tgt, is_blocker=lambda x: is_through(x) or x['k'] == 'ret',
                from_succ=loop['body'], edge_ok=edge_ok)
    ok = hit[0] is None
    ctx.check(rid, ok, f.name, construct, 'src/%s:%s' % (f.file, loop['line']),
              '%s — every iteration of the loop over %s in %s' % (what, loop.get('bound'), f.name),
              witness=None if ok else {'back_edge_from_block': hit[0]})
    return ok


# ---- template X ----------------------------------------------------------------------------------

def is_success_return(prog, f, x):
    """A return that does not provably report failure."""
    return x['k'] == 'ret' and ret_value_class(prog, f, x) != 'fail'


def reject_if(ctx, rid, f, pred, pol, what, construct, success=None, min_edges=1, until=None):
    """RejectIf: there is a branch on an atom satisfying pred, and from its successor with the
    given polarity no path reaches a success return (path-sensitive).  `success` overrides what
    counts as accepting (default: any return that is not a provable failure value); `until`
    marks events after which the obligation is over (e.g. the flag under test is set)."""
    prog = ctx.prog
    succ_pred = success or (lambda x: is_success_return(prog, f, x))
    edges = []
    for bid, b in f.blocks.items():
        for i, s in enumerate(b['succ']):
            if s is None:
                continue
            for ef in decided(f.edge_facts(bid, i)):
                if ef[1] == pol and pred(ef[2]):
                    edges.append((bid, i, s, ef))
                    break
    if len(edges) < min_edges and min_edges == 1 and until is None:
        # no edge decides the condition alone (it is part of a composite evaluated as a value, `!(a && b)`):
        # the same obligation read from the other end - every accepting event is under the opposite fact
        from model import fact_holds
        acc = [x for x in f.events() if succ_pred(x)]
        if acc and all(fact_holds(f.facts_at(x), pred, not pol) for x in acc):
            ctx.inst(rid, f.loc, '%s — every accepting return of %s is under the opposite condition' % (what, f.name))
            return True
    if len(edges) < min_edges:
        ctx.violation(rid, f.name, construct + ':guard-absent', f.loc,
                      '%s — no branch on that condition is left in %s' % (what, f.name))
        return False
    ok = True
    for bid, i, s, ef in edges:
        # what is known when this edge is taken: everything the edge establishes plus the guard facts that hold at
        # the end of its block on every path
        known = {(k, p) for k, p, a in f.edge_facts(bid, i, all=True)}
        known |= {(k, p) for k, (p, a) in f.facts_at({'_b': bid, '_i': len(f.blocks[bid]['ev'])}).items() if (k, not p) not in known}
        # a bool return whose value is decided by what this path assigned (`return a_ok && b_ok` after `a_ok = Error()`)
        # is a failure return on this path
        hit_ok = None
        if success is None and f.retk == 'bool':
            from model import path_value
            hit_ok = lambda ev, facts: not (ev.get('k') == 'ret' and ev.get('e') is not None and path_value(f, ev['e'], facts) == 0)
        r = f.find_path(None, succ_pred, from_succ=s, init_facts=frozenset(known),
                        is_blocker=lambda x: (x['k'] == 'ret' and not succ_pred(x)) or
                        (until is not None and until(x)), hit_ok=hit_ok)
        line = f.blocks[bid].get('term', {}).get('line', f.line)
        ok &= ctx.check(rid, r is None, f.name, construct, 'src/%s:%s' % (f.file, line),
                        '%s — when %s%s, %s cannot return success' % (
                            what, '' if pol else '!', ef[0][:90], f.name),
                        witness=None if r is None else {'blocks': r[0], 'reaches': r[1].get('src')})
    return ok


# ---- canonicalise before intern --------------------------------------------------------------------

INTERN = ('State::GetNode', 'State::LookupNode', 'State::AddIn', 'State::AddOut',
          'State::AddValidation', 'State::AddDefault')


def canon_before_intern(ctx, rid, f, exempt=None):
    """Every string variable handed to State::GetNode/LookupNode/AddIn/AddOut/AddValidation/
    AddDefault in f passes CanonicalizePath on every path from its definition."""
    n = 0
    for e in f.events('call'):
        if e.get('name') not in INTERN:
            continue
        # the path argument: first std::string / StringPiece argument
        parg = None
        for a in e.get('args', []):
            vs = [x for x in walk(a) if x.get('k') == 'var' and
                  ('string' in (x.get('ty') or '') or 'StringPiece' in (x.get('ty') or ''))]
            if vs:
                parg = vs[0]
                break
        if parg is None:
            parg = _cursor_of(e)
        if parg is None:
            key = (f.name, e.get('name'))
            ok = exempt is not None and key in exempt
            ctx.check(rid, ok, f.name, 'intern-non-variable:%s' % e.get('name'), f.where(e),
                      'path given to %s in %s is a tracked variable%s' % (
                          e.get('name'), f.name, (' (exempt: %s)' % exempt[key]) if ok else ''))
            continue
        v = parg['n']
        n += 1
        defs = [x for x in f.events() if (x['k'] == 'decl' and x['n'] == v) or
                (x['k'] == 'asg' and mentions_var(x['l'], v) and strip(x['l']).get('k') == 'var')]
        if parg.get('vk') == 'param':
            defs = []
            start_entry = True
        else:
            start_entry = False

        def is_canon(x):
            if not (x['k'] == 'call' and x.get('name') == 'CanonicalizePath' and any(mentions_var(a, v) for a in x.get('args', []))):
                return False
            args = x.get('args', [])
            if len(args) == 3 and not mentions_var(args[1], v):
                # the (char*, size_t* len, bits) overload shortens the text in place and reports the new length in
                # *len: with a length variable of its own (not the piece's own len_), the string still has its old
                # length - it is canonical only once it was cut to that length
                lens = [y['n'] for y in walk(args[1]) if y.get('k') == 'var']
                cut = [y for y in f.events('call') if lastname(y.get('name')) in ('resize', 'erase', 'assign') and
                       mentions_var(y.get('recv'), v) and any(mentions_var(y.get('args'), ln) for ln in lens) and
                       f.dominates_ev(x, y) and f.dominates_ev(y, e)]
                return bool(cut)
            return True
        bad = None
        if start_entry:
            bad = f.find_path(None, lambda x: x is e, is_blocker=is_canon, from_succ=f.entry)
        for d in defs:
            if not f.ev_reaches(d, e):
                continue
            r = f.find_path(d, lambda x: x is e, is_blocker=lambda x: is_canon(x) or
                            (x is not d and x in defs))
            if r is not None:
                bad = r
        key = (f.name, e.get('name'), v)
        if bad is not None and exempt is not None and key not in exempt:
            # an exemption stated over where the value comes from (`elem-of:<field>`), whatever the variable is called
            for (fn_, callee_, spec), why in exempt.items():
                if fn_ == f.name and callee_ == e.get('name') and str(spec).startswith('elem-of:'):
                    fld = spec.split(':', 1)[1]
                    os_ = origins(f, parg)
                    if os_ and all(isinstance(o, dict) and (mentions_field(o.get('of') if o.get('k') == 'elem' else o, fld)) for o in os_):
                        key = (fn_, callee_, spec)
        if bad is not None and exempt is not None and key in exempt:
            ctx.inst(rid, f.where(e), '%s in %s not canonicalised here (exempt: %s)' % (
                e.get('name'), f.name, exempt[key]))
            continue
        ctx.check(rid, bad is None, f.name, 'intern-without-canonicalize:%s:%s' % (e.get('name'), v),
                  f.where(e), '`%s` passes CanonicalizePath before %s in %s' % (v, e.get('name'), f.name),
                  witness=None if bad is None else {'blocks': bad[0]})
    return n


def _cursor_of(e):
    """An element reached through a cursor (`*it` of an iterator loop - also what the reference parameter of a for_each lambda
    becomes once it is inlined): the cursor variable stands for the element."""
    for a in e.get('args', []):
        for x in walk(a):
            if isinstance(x, dict) and ((x.get('k') == 'call' and x.get('op') == '*' and isinstance(strip(x.get('recv')), dict) and strip(x['recv']).get('k') == 'var') or
                                        (x.get('k') == 'un' and x.get('op') == '*' and isinstance(strip(x.get('e')), dict) and strip(x['e']).get('k') == 'var')):
                return strip(x.get('recv') if x.get('k') == 'call' else x.get('e'))
    return None


def intern_site_status(f, e):
    """Status of ONE call of an interning function (State::GetNode, ...): ('canon', var, None) when the path variable
    passes CanonicalizePath on every way from each of its definitions; ('param', var, None) when it is the enclosing
    function's own parameter handed on unchanged; ('nonvar', None, None) when the argument is no tracked variable;
    ('bad', var, witness path) otherwise."""
    parg = None
    for a in e.get('args', []):
        vs = [x for x in walk(a) if x.get('k') == 'var' and
              ('string' in (x.get('ty') or '') or 'StringPiece' in (x.get('ty') or '') or 'char *' in (x.get('ty') or ''))]
        if vs:
            parg = vs[0]
            break
    if parg is None:
        parg = _cursor_of(e)
    if parg is None:
        return 'nonvar', None, None
    v = parg['n']

    def is_canon(x):
        if not (x['k'] == 'call' and x.get('name') == 'CanonicalizePath' and any(mentions_var(a, v) for a in x.get('args', []))):
            return False
        args = x.get('args', [])
        if len(args) == 3 and not mentions_var(args[1], v):
            lens = [y['n'] for y in walk(args[1]) if y.get('k') == 'var']
            cut = [y for y in f.events('call') if lastname(y.get('name')) in ('resize', 'erase', 'assign') and
                   mentions_var(y.get('recv'), v) and any(mentions_var(y.get('args'), ln) for ln in lens) and
                   f.dominates_ev(x, y) and f.dominates_ev(y, e)]
            return bool(cut)
        return True
    if parg.get('vk') == 'param':
        bad = f.find_path(None, lambda x: x is e, is_blocker=is_canon, from_succ=f.entry)
        if bad is None:
            return 'canon', v, None
        written = [x for x in f.stores() if strip(x.get('l') if x['k'] != 'decl' else None) is not None and
                   x['k'] == 'asg' and strip(x['l']).get('k') == 'var' and strip(x['l'])['n'] == v]
        return ('param', v, None) if not written else ('bad', v, {'blocks': bad[0]})
    defs = [x for x in f.events() if (x['k'] == 'decl' and x['n'] == v) or
            (x['k'] == 'asg' and mentions_var(x['l'], v) and strip(x['l']).get('k') == 'var')]
    bad = None
    for d in defs:
        if not f.ev_reaches(d, e):
            continue
        r = f.find_path(d, lambda x: x is e, is_blocker=lambda x: is_canon(x) or (x is not d and x in defs))
        if r is not None:
            bad = r
    if bad is None:
        return 'canon', v, None
    return 'bad', v, {'blocks': bad[0]}


def skip_conditions_exact(ctx, rid, f, loop, is_action, allowed_skip, what, construct):
    """In every iteration of `loop` the action event is reached unless the iteration is left
    through one of the allowed skip conditions [(pred, polarity)]; any other way around the
    action is a violation."""
    hdr = loop['header']
    hit = [None]

    def edge_ok(b, i, s):
        for ef in decided(f.edge_facts(b, i)):
            for pred, pol in allowed_skip:
                if ef[1] == pol and pred(ef[2]):
                    return False
        if s == hdr:
            hit[0] = b
            return False
        return True
    f.find_path(None, lambda x: False, is_blocker=lambda x: is_action(x) or x['k'] == 'ret',
                from_succ=loop['body'], edge_ok=edge_ok)
    ok = hit[0] is None
    ctx.check(rid, ok, f.name, construct, 'src/%s:%s' % (f.file, loop['line']),
              '%s — in %s' % (what, f.name),
              witness=None if ok else {'back_edge_from_block': hit[0]})
    return ok


def reached_only_via(ctx, rid, f, e, pred, pol, what, construct):
    """Event e is reachable from the function entry only through a branch edge whose condition
    satisfies pred with the given polarity (structural guard; unlike guard facts this is not
    affected by later writes)."""
    def edge_ok(b, i, s):
        return not any(ef[1] == pol and pred(ef[2]) for ef in decided(f.edge_facts(b, i)))
    r = f.find_path(None, lambda x: x is e, from_succ=f.entry, edge_ok=edge_ok, sensitive=False)
    ctx.check(rid, r is None, f.name, construct, f.where(e),
              '%s — `%s` in %s' % (what, e.get('src', e.get('name', ''))[:70], f.name),
              witness=None if r is None else {'blocks': r[0]})
    return r is None


def deep_resolve(f, d, depth=0):
    """Substitute single-definition locals by their initialisers everywhere inside d."""
    if depth > 5:
        return d
    if isinstance(d, list):
        return [deep_resolve(f, x, depth) for x in d]
    if not isinstance(d, dict):
        return d
    if d.get('k') == 'var' and d.get('vk') == 'local':
        init = f.single_def(d['n'])
        if init is not None:
            return deep_resolve(f, unwrap_conv(init), depth + 1)
        return d
    return {k: (deep_resolve(f, v, depth) if isinstance(v, (dict, list)) else v) for k, v in d.items()}


SIZE_OF_OPEN_STREAM = ('ftell', 'ftello', 'fstat', '_filelengthi64', 'lseek')


def header_iff_empty(ctx, rid, f, is_header_write, stream_field):
    """A log file gets its header exactly when the *opened* file is empty: the header write is
    guarded by a position / size query on the open stream (not by a path-based query made before
    the open, which misses a file that exists but is empty, e.g. torn at byte 0), and when that
    query says "empty" the header write is not skipped."""
    from model import fact_holds
    ws = [e for e in f.events('call') if is_header_write(e)]
    if not ws:
        ctx.violation(rid, f.name, 'header:write-absent', f.loc, 'no header write in %s' % f.name)
        return
    def size_query(a):
        return any(mentions_call(a, c) for c in SIZE_OF_OPEN_STREAM) and mentions_field(a, stream_field)
    e = sorted(ws, key=lambda x: (x.get('line', 0), x.get('col', 0)))[0]
    facts = f.facts_at(e)
    g = [(k, pol) for k, (pol, atom) in facts.items() if size_query(atom)] if isinstance(facts, dict) else \
        [(k, pol) for (k, pol, atom) in facts if size_query(atom)]
    ctx.check(rid, bool(g), f.name, 'header:not-guarded-by-open-stream-size', f.where(e),
              'the header is written only when a size/position query on the open stream %s says the file is empty: %s' % (stream_field, g))
    # the other direction: from the "empty" edge every path to a success return passes the header write
    for bid, b in f.blocks.items():
        for i, s2 in enumerate(b['succ']):
            if s2 is None:
                continue
            for k, pol, atom in f.edge_facts(bid, i):
                if size_query(atom) and (k, pol) in g:
                    r = f.find_path(None, lambda x: x['k'] == 'ret' and ret_value_class(f.prog, f, x) == 'success', from_succ=s2,
                                    is_blocker=is_header_write)
                    ctx.check(rid, r is None, f.name, 'header:skipped-on-empty-file', f.where(e),
                              'an empty file always receives the header before OpenForWriteIfNeeded succeeds')


def linear(f, d, env=None, depth=0):
    """Linear normal form {symbol: coefficient, 1: constant} of an integer / pointer expression:
    +, -, casts, sizeof and constants are interpreted, everything else is an opaque symbol; names
    bound in env (dstr of an lvalue -> expression) are substituted."""
    env = env or {}
    out = {}

    def add(sym, c):
        out[sym] = out.get(sym, 0) + c
        if out[sym] == 0:
            del out[sym]
    if isinstance(d, dict) and d.get('k') == 'cast':
        return linear(f, d['e'], env, depth)
    d = strip(d)
    if not isinstance(d, dict):
        return {'?': 1}
    c = const_value(d)
    if c is not None:
        return {1: c} if c else {}
    if d.get('k') == 'sizeof' and d.get('v') is not None:
        return {1: d['v']}
    if d.get('k') == 'bin' and d['op'] in ('+', '-'):
        l = linear(f, d['l'], env, depth)
        r = linear(f, d['r'], env, depth)
        for k, v in l.items():
            add(k, v)
        for k, v in r.items():
            add(k, v if d['op'] == '+' else -v)
        return out
    key = dstr(d)
    if key in env and depth < 6:
        return linear(f, env[key], env, depth + 1)
    if d.get('k') == 'var' and d.get('vk') == 'local' and depth < 6:
        init = f.single_def(d['n'])
        # a local computed from something that was reassigned since (a key of env) stays a symbol
        if init is not None and not any(k in dstr(init) for k in env):
            return linear(f, init, env, depth + 1)
    return {key: 1}


def block_env(f, ev):
    """lvalue -> last value assigned to it earlier in ev's basic block."""
    env = {}
    for e in f.blocks[ev['_b']]['ev'][:ev['_i']]:
        if e['k'] == 'asg' and e.get('op') == '=':
            env[dstr(strip(e['l']))] = e.get('r')
    return env


def reached_only_through(ctx, rid, f, is_event, allowed_edge, what, construct):
    """Every path from the function entry to an event satisfying is_event takes at least one branch
    edge for which allowed_edge(list of (key, polarity, atom)) holds; reports a witness otherwise.
    (The converse of a guard: nothing *else* leads there.)"""
    tg = [e for e in f.events() if is_event(e)]
    ok_all = True
    for t in tg:
        r = f.find_path(None, lambda x: x is t, from_succ=f.entry, sensitive=False,
                        edge_ok=lambda b, i, s2: not allowed_edge(decided(f.edge_facts(b, i))))
        ok = r is None
        ok_all &= ok
        ctx.check(rid, ok, f.name, construct, f.where(t), '%s — in %s' % (what, f.name),
                  witness=None if ok else {'blocks': r[0]})
    if not tg:
        ctx.violation(rid, f.name, construct + ':no-site', f.loc, '%s — no such site in %s' % (what, f.name))
        return False
    return ok_all


def absent_from(field):
    """Skip-condition entries [(pred, polarity)] meaning "the key is not in container `field`":
    `find(k) == end()` true, `count(k) == 0` true, `count(k)` false, `contains(k)` false."""
    def eq_end(a):
        a = strip(a)
        return isinstance(a, dict) and a.get('k') == 'call' and basename(a.get('name') or '').startswith('operator==') and \
            ('%s.end()' % field) in dstr(a)

    def count_zero(a):
        a = strip(a)
        return isinstance(a, dict) and a.get('k') == 'bin' and a['op'] == '==' and const_value(a['r']) == 0 and \
            any(x.get('k') == 'call' and lastname(x.get('name')) in ('count',) and mentions_field(x.get('recv'), field) for x in walk(a['l']))

    def count_truth(a):
        a = strip(a)
        return isinstance(a, dict) and a.get('k') == 'call' and lastname(a.get('name')) in ('count', 'contains') and \
            mentions_field(a.get('recv'), field)
    return [(eq_end, True), (count_zero, True), (count_truth, False)]


def answer_sites(f):
    """Where a function's result is decided: [(event, value descriptor)].  `return e` answers at the return; a
    function that returns a result variable on its way out (`T r; if (..) r = a; else r = b; return r;`) answers at
    each store into that variable (assignments, `operator=` / assign calls, a declaration with an initialiser)."""
    out = []
    for e in f.events('ret'):
        v = e.get('e')
        sv = unwrap_conv(v) if v is not None else None
        if isinstance(sv, dict) and sv.get('k') == 'var' and sv.get('vk') == 'local':
            n = sv['n']
            found = False
            for x in f.events():
                if x.get('k') == 'asg' and isinstance(strip(x.get('l')), dict) and strip(x['l']).get('k') == 'var' and strip(x['l'])['n'] == n:
                    out.append((x, x.get('r')))
                    found = True
                elif x.get('k') == 'decl' and x.get('n') == n and x.get('init') is not None:
                    i0 = unwrap_conv(x['init'])
                    if not (isinstance(i0, dict) and i0.get('k') in ('ctor', 'construct') and not i0.get('args')):
                        out.append((x, x['init']))
                        found = True
                elif x.get('k') == 'call' and (x.get('op') == '=' or lastname(x.get('name') or '') in ('operator=', 'assign')) and \
                        isinstance(strip(x.get('recv')), dict) and strip(x['recv']).get('k') == 'var' and strip(x['recv'])['n'] == n:
                    out.append((x, (x.get('args') or [None])[0]))
                    found = True
            if not found:
                out.append((e, v))
        else:
            out.append((e, v))
    return out


# ---- "this condition is enough": implication through flags, composites and helper predicates ---------------------

def _subst_params(d, mapping):
    if isinstance(d, list):
        return [_subst_params(x, mapping) for x in d]
    if not isinstance(d, dict):
        return d
    if d.get('k') == 'var' and d.get('vk') == 'param' and d.get('n') in mapping:
        return mapping[d['n']]
    return {k: (_subst_params(v, mapping) if isinstance(v, (dict, list)) else v) for k, v in d.items()}


def justified(prog, f, atom, pol, base, mapping=None, depth=0, seen=None):
    """Does `atom` having truth value `pol` (in function f) imply a condition base accepts?
    base(fn, atom, pol) decides leaves (atoms are given with the parameters of helper predicates replaced by the
    caller's arguments).  Looked through:
      - `a && b` / `a || b` (either value: one conjunct of a true conjunction is enough, every disjunct of a false one is needed);
      - a local flag: every definition that can give it that value is a constant placed under a justified guard, or
        an expression that is itself justified for that value;
      - a call of a function defined in the program: every return that can give that value is justified likewise."""
    if depth > 8:
        return False
    seen = seen or frozenset()
    mapping = mapping or {}
    a, p0 = norm_cond(prog, atom)
    if not p0:
        pol = not pol
    a = strip(a)
    if not isinstance(a, dict):
        return False
    shown = _subst_params(a, mapping) if mapping else a
    if base(f, shown, pol):
        return True
    k = a.get('k')
    if k == 'bin' and a.get('op') in ('&&', '||'):
        parts = [a['l'], a['r']]
        if (a['op'] == '&&') == pol:
            return any(justified(prog, f, x, pol, base, mapping, depth + 1, seen) for x in parts)
        return all(justified(prog, f, x, pol, base, mapping, depth + 1, seen) for x in parts)

    def site_ok(g, ev, mp):
        for key, (fp, fa) in g.facts_at(ev).items():
            if justified(prog, g, fa, fp, base, mp, depth + 1, seen):
                return True
        return False

    def value_ok(g, ev, rhs, mp):
        cv = const_value(rhs)
        if cv is not None:
            return (cv != 0) != pol or site_ok(g, ev, mp)
        return justified(prog, g, rhs, pol, base, mp, depth + 1, seen) or site_ok(g, ev, mp)

    if k == 'var' and a.get('vk') == 'local':
        key = (f.id, a['n'])
        if key in seen:
            return False
        seen = seen | {key}
        defs = []
        for e in f.events():
            if ('var', a['n']) in _written_names(f, e):
                if e['k'] == 'decl' and e.get('init') is not None:
                    defs.append((e, e['init']))
                elif e['k'] == 'asg' and e.get('op') == '=' and strip(e['l']).get('k') == 'var':
                    defs.append((e, e.get('r')))
                else:
                    return False        # written in a way that is not followed
        return bool(defs) and all(value_ok(f, e, r, mapping) for e, r in defs)
    if k == 'call' and a.get('fn') in prog.functions:
        g = prog.functions[a['fn']]
        key = (g.id, '')
        if key in seen or g.retk != 'bool':
            return False
        seen = seen | {key}
        args = [deep_resolve(f, _subst_params(x, mapping)) for x in (a.get('args') or [])]
        mp = {p['n']: args[i] for i, p in enumerate(g.params) if i < len(args)}
        rets = [e for e in g.events('ret')]
        return bool(rets) and all(value_ok(g, e, e.get('e'), mp) for e in rets)
    return False


def str_value(prog, f, d, depth=0):
    """The text of a descriptor that is a string literal, a single-definition local holding one, or a constant
    global character array / pointer initialised with one (`const char kFormat[] = "...";`); None otherwise."""
    d = strip(d)
    if not isinstance(d, dict) or depth > 4:
        return None
    if d.get('k') == 'str':
        return d.get('v')
    if d.get('k') == 'var':
        if d.get('vk') == 'local':
            init = f.single_def(d['n']) if f is not None else None
            return str_value(prog, f, init, depth + 1) if init is not None else None
        g = prog.globals.get(d.get('n'))
        if g is not None and g.get('const') and isinstance(g.get('init'), dict):
            return str_value(prog, None, g['init'], depth + 1)
    return None


def loop_blocks(f, l):
    """Blocks of the natural loop with header l['header']: the header plus everything that reaches one of its back
    edges without passing the header again (nested and enclosing loops are told apart by dominance)."""
    h = l['header']
    dom = f.dominators()
    tails = [p for p in f.preds.get(h, []) if h in dom.get(p, ())]
    body = {h}
    st = list(tails)
    while st:
        x = st.pop()
        if x in body:
            continue
        body.add(x)
        st.extend(p for p in f.preds.get(x, []) if p not in body)
    return body


def flush_succeeded_at(f, e):
    """A must-fact at event e says that an fflush() call returned 0 (`if (fflush(f) != 0) return false;` before it, or e sits
    behind a conjunction `... && fflush(f) == 0`)."""
    for k, (pol, a) in f.facts_at(e).items():
        a = strip(a)
        if isinstance(a, dict) and a.get('k') == 'bin' and a.get('op') in ('==', '!=') and const_value(a.get('r')) == 0 and \
                isinstance(strip(a.get('l')), dict) and strip(a['l']).get('k') == 'call' and strip(a['l']).get('name') == 'fflush':
            if (a['op'] == '==') == bool(pol):
                return True
    return False
