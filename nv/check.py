"""CLI of the static checks.  python3 nv/check.py <property id> [--tier quick|thorough]
Exit 0: all rule instances hold (known findings listed); 1: VIOLATION; 2: analysis broken."""
import argparse
import importlib
import json
import os
import sys
import traceback

sys.path.insert(0, os.path.dirname(os.path.abspath(__file__)))
from facts import AnalysisBroken, load_facts   # noqa: E402
from model import Program                       # noqa: E402
from core import Ctx                            # noqa: E402


def run_property(pid, tier):
    facts, info = load_facts()
    prog = Program(facts)
    if len(prog.functions) < 600:
        raise AnalysisBroken('only %d functions with bodies extracted (>= 600 confirmed)' %
                             len(prog.functions))
    mod = importlib.import_module('props.' + pid.lower())
    ctx = Ctx(pid, prog, info, tier)
    mod.run(ctx)
    if tier == 'thorough':
        if hasattr(mod, 'run_thorough'):
            mod.run_thorough(ctx)
        import thorough
        thorough.run(ctx)
    return ctx.finish()


def main():
    ap = argparse.ArgumentParser()
    ap.add_argument('property', nargs='?')
    ap.add_argument('--tier', default=os.environ.get('VERIF_TIER', 'quick'))
    ap.add_argument('--replay')
    a = ap.parse_args()
    if a.replay:
        v = json.load(open(a.replay))
        print(json.dumps(v, indent=1))
        a.property = v['property']
    tier = 'thorough' if a.tier == 'thorough' else 'quick'
    try:
        rc = run_property(a.property, tier)
    except AnalysisBroken as e:
        print('ANALYSIS-BROKEN property=%s: %s' % (a.property, e))
        sys.exit(2)
    except Exception:
        traceback.print_exc()
        print('ANALYSIS-BROKEN property=%s: internal error' % a.property)
        sys.exit(2)
    if rc == 0:
        print('OK property=%s tier=%s' % (a.property, tier))
    sys.exit(rc)


if __name__ == '__main__':
    main()
