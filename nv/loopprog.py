"""Loop progress (template LP): abstract interpretation of one loop `while (v < BOUND)` over a
disjunctive (powerset) domain of small per-variable states, deciding whether every trip around the
loop leaves the position variable v strictly larger than it was at the top of the iteration (or at /
beyond BOUND, so that the loop condition ends the loop).

Per integer / pointer local x the abstract value is
    lo    lower bound of x - v0 (v0 = value of v at the top of the iteration), capped at 2; None = unknown
    ge    x >= BOUND is known
    lt    x <  BOUND is known
    npos  'y' x is npos, 'n' it is not, 'm' unknown
    cs    set of byte values S[x] can have (from find_first_of / find and from comparisons), None = unknown
Transfer functions exist for copies, `x + c`, `++x`, `x += c`, `S.size()`, `S.find*(.., pos)` and
npos; conditions `x == npos`, `x < BOUND`, `x + c < BOUND`, `S[x] == c` (and their negations / mirror
images) refine or refute a state.  Everything else makes the written variable unknown, and a loop whose
back edge is reached with an unknown v is reported as undecided, never as a violation.  A violation is
a back edge reached by a state in which every value involved is known and v may be unchanged."""
import collections
from model import strip, dstr, const_value, walk

CAP = 2
ALL_BYTES = frozenset(range(256))
Pos = collections.namedtuple('Pos', 'lo ge lt npos cs')
UNKNOWN = Pos(None, False, False, 'm', None)
NPOS_VALUES = (-1, 2 ** 64 - 1, 2 ** 32 - 1)


def _cap(n):
    return None if n is None else min(n, CAP)


def _is_npos(d):
    d = strip(d)
    if not isinstance(d, dict):
        return False
    if d.get('k') in ('var', 'mem', 'global') and str(d.get('n', '')).endswith('npos'):
        return True
    return False


class LoopProgress(object):
    def __init__(self, f, header, v, bound_key, subject):
        self.f = f
        self.header = header
        self.v = v
        self.bound_key = bound_key          # dstr of BOUND
        self.subject = subject              # dstr of S (the string / buffer), may be None
        self.undecided = []
        self.notes = []
        self.sentinel = bound_key is None      # the loop ends at a NUL byte: stepping over a possible NUL is an over-read
        self.overreads = {}
        self.states_seen = 0
        self.loop = self._natural_loop()

    # ---- CFG helpers ---------------------------------------------------------------------------
    def _natural_loop(self):
        f = self.f
        dom = f.dominators()
        blocks = {self.header}
        for b in f.blocks:
            if self.header in f.succ(b) and (self.header in dom.get(b, ()) or b == self.header):
                st = [b]
                while st:
                    x = st.pop()
                    if x in blocks:
                        continue
                    blocks.add(x)
                    st.extend(f.preds[x])
        return blocks

    # ---- evaluation ----------------------------------------------------------------------------
    def is_bound(self, d):
        return self.bound_key is not None and dstr(strip(d)).replace(' ', '') == self.bound_key

    def var_of(self, d):
        d = strip(d)
        if isinstance(d, dict) and d.get('k') == 'var' and d.get('vk') in ('local', 'param'):
            return d['n']
        return None

    def eval(self, d, st):
        """-> list of Pos (several when the value forks, e.g. a find that may fail)."""
        if isinstance(d, dict) and d.get('k') == 'cast':
            return self.eval(d['e'], st)
        d = strip(d)
        if not isinstance(d, dict):
            return [UNKNOWN]
        if _is_npos(d):
            return [Pos(None, True, False, 'y', None)]
        if self.is_bound(d):
            return [Pos(1, True, False, 'n', None)]
        c = const_value(d)
        if c is not None:
            if c in NPOS_VALUES and d.get('k') != 'int':
                return [Pos(None, True, False, 'y', None)]
            return [UNKNOWN._replace(npos='n')]
        n = self.var_of(d)
        if n is not None:
            return [st.get(n, UNKNOWN)]
        k = d.get('k')
        if k == 'bin' and d['op'] in ('+', '-'):
            cr = const_value(d['r'])
            cl = const_value(d['l'])
            if d['op'] == '+' and (cr is not None or cl is not None):
                cc, other = (cr, d['l']) if cr is not None else (cl, d['r'])
                out = []
                for p in self.eval(other, st):
                    if cc == 0:
                        out.append(p)
                    elif cc > 0:
                        out.append(Pos(_cap(p.lo + cc) if p.lo is not None else None, p.ge and p.npos == 'n', False,
                                       'n' if p.npos == 'n' else 'm', None))
                    else:
                        out.append(UNKNOWN)
                return out
            if d['op'] == '-' and cr == 0:
                return self.eval(d['l'], st)
            return [UNKNOWN]
        if k == 'call':
            name = d.get('name') or ''
            last = name.split('::')[-1].split('<')[0]
            recv = d.get('recv')
            is_subject = recv is not None and self.subject is not None and dstr(strip(recv)).replace(' ', '') == self.subject
            if last in ('find_first_of', 'find', 'find_first_not_of') and is_subject:
                args = d.get('args') or []
                pos = self.eval(args[1], st) if len(args) > 1 else [UNKNOWN]
                cs = None
                a0 = strip(args[0]) if args else None
                if last in ('find_first_of', 'find') and isinstance(a0, dict):
                    if a0.get('k') == 'str' and isinstance(a0.get('v'), str) and a0['v']:
                        cs = frozenset(ord(ch) for ch in (a0['v'] if last == 'find_first_of' else a0['v'][0]))
                    elif const_value(a0) is not None:
                        cs = frozenset([const_value(a0) & 0xff])
                out = []
                for p in pos:
                    out.append(Pos(None, True, False, 'y', None))                       # not found
                    out.append(Pos(p.lo, False, True, 'n', cs))                          # found at >= pos
                return out
            if name.startswith('std::') and last == 'min' and len(d.get('args') or []) == 2:
                # min(find result, size): the smaller of two positions (npos is the largest value there is)
                out = []
                for pa in self.eval(d['args'][0], st):
                    for pb in self.eval(d['args'][1], st):
                        if pa.npos == 'y':
                            out.append(pb)
                        elif pb.npos == 'y':
                            out.append(pa)
                        elif pa.npos == 'n' and pb.npos == 'n' and pa.lo is not None and pb.lo is not None:
                            exact = pa if (pa[2] and pb.ge) else pb if (pb[2] and pa.ge) else None
                            out.append(exact if exact is not None else
                                       Pos(min(pa.lo, pb.lo), pa.ge and pb.ge, bool(pa[2] or pb[2]), 'n', None))
                        else:
                            out.append(UNKNOWN)
                return out
            if last in ('memchr', 'strpbrk', 'strchr', 'strstr') and d.get('args'):
                args = d['args']
                cs = None
                a1 = strip(args[1]) if len(args) > 1 else None
                if isinstance(a1, dict):
                    if a1.get('k') == 'str' and isinstance(a1.get('v'), str) and a1['v']:
                        cs = frozenset(ord(ch) for ch in (a1['v'] if last == 'strpbrk' else a1['v'][0]))
                    elif const_value(a1) is not None and last in ('memchr', 'strchr'):
                        cs = frozenset([const_value(a1) & 0xff])
                out = []
                for p in self.eval(args[0], st):
                    out.append(Pos(None, False, False, 'z', None))                       # NULL: not found
                    out.append(Pos(p.lo, False, False, 'n', cs))                         # found at >= start
                return out
        return [UNKNOWN]

    # ---- transfer of one event ----------------------------------------------------------------------
    def step(self, ev, states):
        k = ev['k']
        if k == 'decl':
            if ev.get('init') is None:
                return states
            out = []
            for st in states:
                for p in self.eval(ev['init'], st):
                    s2 = dict(st)
                    s2[ev['n']] = p
                    out.append(s2)
            return out
        if k == 'asg':
            n = self.var_of(ev['l'])
            if n is None:
                return states
            op = ev.get('op')
            out = []
            for st in states:
                if op == '=':
                    if self.sentinel and n == self.v:
                        r0 = strip(ev.get('r'))
                        if isinstance(r0, dict) and r0.get('k') == 'bin' and r0['op'] == '+' and (const_value(r0['r']) or 0) > 0:
                            for bp in self.eval(r0['l'], st):
                                self._step_over(ev, bp)
                    for p in self.eval(ev.get('r'), st):
                        s2 = dict(st)
                        s2[n] = p
                        out.append(s2)
                    continue
                p = st.get(n, UNKNOWN)
                s2 = dict(st)
                if self.sentinel and n == self.v and op in ('++', '+='):
                    self._step_over(ev, p)
                if op == '++':
                    s2[n] = Pos(_cap(p.lo + 1) if p.lo is not None else None, p.ge and p.npos == 'n', False,
                                'n' if p.npos == 'n' else 'm', None)
                elif op == '+=' and (const_value(ev.get('r')) or 0) > 0:
                    c = const_value(ev['r'])
                    s2[n] = Pos(_cap(p.lo + c) if p.lo is not None else None, p.ge and p.npos == 'n', False,
                                'n' if p.npos == 'n' else 'm', None)
                else:
                    s2[n] = UNKNOWN
                out.append(s2)
            return out
        if k == 'call':
            # a call that receives the address of / a non-const reference to a tracked variable may write it
            written = set()
            for a in ev.get('args') or []:
                sa = a
                while isinstance(sa, dict) and sa.get('k') == 'cast':
                    sa = sa['e']
                if isinstance(sa, dict) and sa.get('k') == 'un' and sa.get('op') == '&':
                    n = self.var_of(sa['e'])
                    if n:
                        written.add(n)
            if ev.get('op') in ('++', '--') or (ev.get('name') or '').split('::')[-1] in ('operator++', 'operator--', 'operator+=', 'operator-='):
                n = self.var_of(ev.get('recv')) or (self.var_of(ev['args'][0]) if ev.get('args') else None)
                if n:
                    out = []
                    inc = (ev.get('name') or '').endswith('operator++')
                    for st in states:
                        s2 = dict(st)
                        p = st.get(n, UNKNOWN)
                        s2[n] = Pos(_cap(p.lo + 1) if (inc and p.lo is not None) else None, False, False, 'n', None) if inc else UNKNOWN
                        out.append(s2)
                    return out
            if written:
                out = []
                for st in states:
                    s2 = dict(st)
                    for n in written:
                        s2[n] = UNKNOWN
                    out.append(s2)
                return out
        return states

    def _step_over(self, ev, p):
        """v is advanced past the byte it points at: that byte must be known not to be the NUL."""
        if p.npos in ('y', 'z'):
            return
        if p.cs is None or 0 in p.cs:
            self.overreads[ev.get('line')] = 'the byte stepped over at line %s may be the terminating NUL (%s)' % (
                ev.get('line'), 'not examined on this path' if p.cs is None else 'value set contains 0')

    # ---- refinement by a branch fact --------------------------------------------------------------
    def char_index(self, d):
        """variable x if d is S[x] / *x / x[0]."""
        d = strip(d)
        if not isinstance(d, dict):
            return None
        if d.get('k') == 'call' and (d.get('name') or '').endswith('operator[]') and d.get('args'):
            if self.subject is None or dstr(strip(d.get('recv'))).replace(' ', '') == self.subject:
                return self.var_of(d['args'][0])
        if d.get('k') == 'idx':
            if self.subject is None or dstr(strip(d['b'])).replace(' ', '') == self.subject:
                return self.var_of(d['i'])
            if const_value(d['i']) == 0:
                return self.var_of(d['b'])
        if d.get('k') == 'un' and d.get('op') == '*':
            return self.var_of(d['e'])
        if d.get('k') == 'deref':
            return self.var_of(d.get('e'))
        return None

    def refine(self, st, atom, pol):
        """state after the fact (atom, pol), or None when the state contradicts it."""
        a = strip(atom)
        if isinstance(a, dict) and a.get('k') == 'var' and a.get('tk') == 'ptr' and self.var_of(a):
            # pointer truthiness: found / NULL
            n = a['n']
            p = st.get(n, UNKNOWN)
            st = dict(st)
            if pol:
                if p.npos == 'z':
                    return None
                st[n] = p._replace(npos='n') if p.npos == 'm' else p
            else:
                if p.npos == 'n' and p.lo is not None:
                    return None
                st[n] = Pos(None, False, False, 'z', None)
            return st
        ci0 = self.char_index(a) if isinstance(a, dict) and a.get('k') != 'bin' else None
        if ci0 is not None:
            a = {'k': 'bin', 'op': '!=', 'l': a, 'r': {'k': 'int', 'v': 0}}
        if not (isinstance(a, dict) and a.get('k') == 'bin'):
            return st
        op, l, r = a['op'], a['l'], a['r']
        # normalise to '<' and '=='
        if op == '>':
            op, l, r = '<', r, l
        elif op == '>=':
            op, pol = '<', not pol
        elif op == '<=':
            op, l, r, pol = '<', r, l, not pol
        elif op == '!=':
            op, pol = '==', not pol
        if op not in ('<', '=='):
            return st
        st = dict(st)
        if op == '==':
            for x, y in ((l, r), (r, l)):
                n = self.var_of(x)
                if n is not None and _is_npos(y):
                    p = st.get(n, UNKNOWN)
                    if pol:
                        if p.npos == 'n':
                            return None
                        st[n] = Pos(None, True, False, 'y', None)
                    else:
                        if p.npos == 'y':
                            return None
                        st[n] = p._replace(npos='n')
                    return st
                if n is not None and self.is_bound(y):
                    p = st.get(n, UNKNOWN)
                    if pol:
                        if p.lt:
                            return None
                        st[n] = p._replace(ge=True, npos='n', lo=max(p.lo or 1, 1) if p.lo is not None else 1)
                    return st
                ci = self.char_index(x)
                cv = const_value(y)
                if ci is not None and cv is not None:
                    p = st.get(ci, UNKNOWN)
                    cv &= 0xff
                    if pol:
                        if p.cs is not None and cv not in p.cs:
                            return None
                        st[ci] = p._replace(cs=frozenset([cv]))
                    else:
                        cs = (p.cs if p.cs is not None else ALL_BYTES) - {cv}
                        if not cs:
                            return None
                        st[ci] = p._replace(cs=cs)
                    return st
            return st
        # op == '<'
        n = self.var_of(l)
        off = 0
        ls = strip(l)
        if n is None and isinstance(ls, dict) and ls.get('k') == 'bin' and ls['op'] == '+' and const_value(ls['r']) is not None:
            n, off = self.var_of(ls['l']), const_value(ls['r'])
        if n is not None and self.is_bound(r) and off >= 0:
            p = st.get(n, UNKNOWN)
            if pol:
                if p.ge or p.npos == 'y':
                    return None
                st[n] = p._replace(lt=True, npos='n')
            elif off == 0:
                if p.lt:
                    return None
                st[n] = p._replace(ge=True, lt=False, cs=None)
            return st
        n = self.var_of(r)
        if n is not None and self.is_bound(l):          # BOUND < x
            p = st.get(n, UNKNOWN)
            if pol:
                if p.lt:
                    return None
                st[n] = p._replace(ge=True, lt=False, cs=None)
            return st
        return st

    # ---- fixpoint --------------------------------------------------------------------------------------
    def run(self, max_states=4000):
        f = self.f
        init = {self.v: Pos(0, False, False, 'n', None)}
        key = lambda st: tuple(sorted(st.items()))
        seen = collections.defaultdict(set)
        work = [(self.header, init)]
        back = []
        while work:
            bid, st = work.pop()
            kk = key(st)
            if kk in seen[bid]:
                continue
            seen[bid].add(kk)
            self.states_seen += 1
            if self.states_seen > max_states:
                self.notes.append('state budget exhausted')
                return None
            states = [st]
            for ev in f.blocks[bid]['ev']:
                states = self.step(ev, states)
            for i, s in enumerate(f.blocks[bid]['succ']):
                if s is None:
                    continue
                if s not in self.loop:
                    continue
                facts = f.edge_facts(bid, i)
                for st2 in states:
                    cur = st2
                    for fk, pol, atom in facts:
                        cur = self.refine(cur, atom, pol)
                        if cur is None:
                            break
                    if cur is None:
                        continue
                    if s == self.header:
                        back.append((bid, cur))
                    else:
                        work.append((s, cur))
        return back

    def decide(self):
        """-> ('progress' | 'undecided' | 'stuck', detail)"""
        back = self.run()
        if back is None:
            return 'undecided', 'state budget exhausted'
        if self.overreads:
            return 'overread', '; '.join(self.overreads[k] for k in sorted(self.overreads, key=str))
        if not back:
            return 'progress', 'no path returns to the loop head'
        verdict = 'progress'
        detail = []
        for bid, st in back:
            p = st.get(self.v, UNKNOWN)
            if p.ge or p.npos == 'y' or (p.lo is not None and p.lo >= 1):
                continue
            if p.lo is None:
                if verdict != 'stuck':
                    verdict = 'undecided'
                detail.append('B%s: %s unknown' % (bid, self.v))
            else:
                verdict = 'stuck'
                detail.append('B%s: %s may still equal its value at the top of the iteration (%s)' % (
                    bid, self.v, {k: tuple(x) for k, x in st.items() if k == self.v}))
        return verdict, '; '.join(sorted(set(detail))[:4])


def _conjuncts(c):
    c = strip(c)
    if isinstance(c, dict) and c.get('k') == 'bin' and c['op'] == '&&':
        return _conjuncts(c['l']) + _conjuncts(c['r'])
    return [c]


def position_loops(f):
    """Loops of f (by back edge target h) whose condition has a conjunct `v < BOUND`, `v <= BOUND`,
    `v != BOUND` (v a local or parameter, BOUND not mentioning v and not written in the loop) or a
    sentinel test `*v` / `*v != 0` / `v[0]`: [(h, v, bound key or None, subject key or None, line, kind)]."""
    out = []
    dom = f.dominators()
    heads = sorted({h for b in f.blocks for h in f.succ(b) if h in dom.get(b, ()) or h == b})
    for h in heads:
        # the block that carries the loop statement's condition: follow && / || evaluation blocks
        t_blk, seen = h, set()
        while t_blk is not None and t_blk not in seen:
            seen.add(t_blk)
            t = f.blocks[t_blk].get('term')
            if t and t['kind'] in ('for', 'while'):
                break
            if t and t['kind'] in ('land', 'lor') and f.blocks[t_blk]['succ'] and f.blocks[t_blk]['succ'][0] is not None:
                t_blk = f.blocks[t_blk]['succ'][0]
                continue
            t_blk = None
        if t_blk is None or t_blk in seen and not (f.blocks[t_blk].get('term') or {}).get('kind') in ('for', 'while'):
            continue
        t = f.blocks[t_blk]['term']
        found = None
        for c in _conjuncts(t.get('cond')):
            if not isinstance(c, dict):
                continue
            if c.get('k') == 'bin' and c['op'] in ('<', '!=', '<='):
                l, r = strip(c['l']), strip(c['r'])
                if isinstance(l, dict) and l.get('k') == 'var' and l.get('vk') in ('local', 'param') and \
                        not any(x.get('k') == 'var' and x['n'] == l['n'] for x in walk(r)):
                    if const_value(r) == 0 and c['op'] == '!=':
                        continue
                    subject = None
                    if isinstance(r, dict) and r.get('k') == 'call' and (r.get('name') or '').split('::')[-1] in ('size', 'length') \
                            and r.get('recv') is not None:
                        subject = dstr(strip(r['recv'])).replace(' ', '')
                    found = (l['n'], dstr(r).replace(' ', ''), subject, 'bounded')
                    break
            # sentinel: *v, *v != 0, v[0] != 0
            d = c
            if d.get('k') == 'bin' and d['op'] == '!=' and const_value(d['r']) == 0:
                d = strip(d['l'])
            if isinstance(d, dict) and (d.get('k') == 'deref' or (d.get('k') == 'un' and d.get('op') == '*')):
                e = strip(d.get('e'))
                if isinstance(e, dict) and e.get('k') == 'var' and e.get('vk') in ('local', 'param'):
                    found = (e['n'], None, None, 'sentinel')
                    break
        if found:
            out.append((h, found[0], found[1], found[2], t['line'], found[3]))
    return out


# ---- input-driven loops ------------------------------------------------------------------------------
PRIMITIVE_CONSUMERS = {
    'Lexer::ReadToken', 'Lexer::ReadEvalString', 'Lexer::ReadIdent', 'Lexer::EatWhitespace',
    'fread', 'fgets', 'getline', 'std::getline', 'read', 'getopt', 'getopt_long', 'getc', 'fgetc', 'waitpid',
    'ppoll', 'poll', 'pselect', 'LineReader::ReadLine', 'std::basic_istream<char>::getline',
}


def consumer_functions(prog):
    """Names of functions from which a primitive consumer is reachable on the call graph."""
    cache = getattr(prog, '_consumers', None)
    if cache is not None:
        return cache
    prim = set()
    for f in prog.functions.values():
        if f.name in PRIMITIVE_CONSUMERS:
            prim.add(f.id)
    res = set(PRIMITIVE_CONSUMERS)
    # reverse reachability
    callers = collections.defaultdict(set)
    for f in prog.functions.values():
        for e in f.events('call'):
            for t in prog.call_targets(e):
                callers[t].add(f.id)
            if e.get('name') in PRIMITIVE_CONSUMERS:
                callers['@' + e['name']].add(f.id)
    st = list(prim) + ['@' + n for n in PRIMITIVE_CONSUMERS]
    seen = set(st)
    while st:
        x = st.pop()
        for c in callers.get(x, ()):
            if c not in seen:
                seen.add(c)
                st.append(c)
    for fid in seen:
        if fid in prog.functions:
            res.add(prog.functions[fid].name)
    prog._consumers = res
    return res


def input_driven_loops(prog, f, skip_heads=()):
    """[(head, line, consuming blocks, cycle-without-consumption or None)] for the loops of f that
    contain a consuming call and are not in skip_heads."""
    cons = consumer_functions(prog)
    dom = f.dominators()
    heads = sorted({h for b in f.blocks for h in f.succ(b) if h in dom.get(b, ()) or h == b})
    out = []
    for h in heads:
        if h in skip_heads:
            continue
        loop = {h}
        for b in f.blocks:
            if h in f.succ(b) and (h in dom.get(b, ()) or b == h):
                st = [b]
                while st:
                    x = st.pop()
                    if x in loop:
                        continue
                    loop.add(x)
                    st.extend(f.preds[x])
        cblocks = {b for b in loop if any(e['k'] == 'call' and e.get('name') in cons for e in f.blocks[b]['ev'])}
        if not cblocks:
            continue
        line = None
        stmt = None
        for b in sorted(loop, reverse=True):
            t = f.blocks[b].get('term')
            if t and t['kind'] in ('for', 'while', 'do', 'range'):
                line, stmt = t['line'], t
                break
        # only loops driven by input: `for (;;)` / `while (true)` or a condition that itself consumes
        if stmt is not None:
            c = stmt.get('cond')
            unconditional = c is None or const_value(c) == 1 or (isinstance(c, dict) and c.get('k') in ('?', '_'))
            in_cond = isinstance(c, (dict, list)) and any(x.get('k') == 'call' and x.get('name') in cons for x in walk(c))
            if not (unconditional or in_cond):
                continue
        witness = None
        if h not in cblocks:
            st = [(s, [h, s]) for s in f.succ(h) if s in loop]
            seen = set()
            while st and witness is None:
                x, path = st.pop()
                if x == h:
                    witness = path
                    break
                if x in seen or x in cblocks:
                    continue
                seen.add(x)
                for s in f.succ(x):
                    if s in loop:
                        st.append((s, path + [s]))
        out.append((h, line, sorted(cblocks), witness))
    return out
