"""Fact-driven interval evaluation (template TB): lower / upper bound of an integer expression at
an event, from (a) literals and constants, (b) guard facts about variables that hold at the
event (kills already applied by the guard-fact analysis), (c) the unsigned type of a variable,
(d) the single definition of a local, (e) monotone update patterns (a local that is only ever
decremented after its declaration keeps its initial upper bound)."""
from model import strip, dstr, const_value, walk

INF = float('inf')
_VISITING = set()
_NE = {}

# library calls whose result is bounded by one of their arguments (index of that argument);
# snprintf / vsnprintf are deliberately absent: they return the length the text *would* have had
RETURNS_AT_MOST = {'read': 2, 'fread': 2, 'fwrite': 2, 'recv': 2, 'pread': 2}


def _facts_bounds(f, facts, key):
    """(lo, hi) implied for the expression with canonical string `key` by the guard facts."""
    lo, hi = -INF, INF
    ne = []
    for k, (pol, atom) in facts.items():
        a = strip(atom)
        if not (isinstance(a, dict) and a.get('k') == 'bin' and a['op'] in ('<', '==')):
            continue
        l, r = strip(a['l']), strip(a['r'])
        lk, rk = dstr(l), dstr(r)
        lc, rc_ = const_value(l), const_value(r)
        if a['op'] == '<':
            if lk == key and rc_ is not None:
                if pol:
                    hi = min(hi, rc_ - 1)       # key < c
                else:
                    lo = max(lo, rc_)           # !(key < c)  => key >= c
            if rk == key and lc is not None:
                if pol:
                    lo = max(lo, lc + 1)        # c < key
                else:
                    hi = min(hi, lc)            # !(c < key)  => key <= c
        elif a['op'] == '==' and pol:
            if lk == key and rc_ is not None:
                lo, hi = max(lo, rc_), min(hi, rc_)
        elif a['op'] == '==' and not pol:
            # x != c at the edge of the known range moves the bound (x unsigned, x != 0  =>  x >= 1)
            if lk == key and rc_ is not None:
                ne.append(rc_)
    _NE[key] = ne
    return lo, hi


def bounds(f, ev, d, depth=0):
    """(lo, hi) of descriptor d at event ev in function f; ±inf when unknown."""
    facts = f.facts_at(ev) if ev is not None else {}
    return _b(f, ev, facts, d, depth)


def _b(f, ev, facts, d, depth):
    d0 = d
    d = strip(d) if not (isinstance(d, dict) and d.get('k') == 'cast') else d
    if isinstance(d0, dict) and d0.get('k') == 'cast':
        lo, hi = _b(f, ev, facts, d0['e'], depth)
        ty = d0.get('ty') or ''
        if 'unsigned' in ty or ty in ('size_t', 'uint32_t', 'uint64_t'):
            if lo < 0:
                return 0, INF       # a negative value converts to a huge one
        return lo, hi
    if not isinstance(d, dict):
        return -INF, INF
    c = const_value(d)
    if c is not None:
        return c, c
    k = d.get('k')
    key = dstr(d)
    lo, hi = _facts_bounds(f, facts, key)
    if k == 'var':
        if d.get('tk') == 'uint' or (d.get('ty') or '').startswith(('unsigned', 'size_t', 'uint', 'std::size_t')):
            lo = max(lo, 0)
        for c in sorted(_NE.get(key, ())):
            if c == lo:
                lo += 1
        if depth < 6 and d.get('vk') in ('local',) and d['n'] not in _VISITING:
            _VISITING.add(d['n'])
            try:
                defs = [e for e in f.events() if (e['k'] == 'decl' and e['n'] == d['n']) or
                        (e['k'] == 'asg' and isinstance(strip(e['l']), dict) and strip(e['l']).get('k') == 'var'
                         and strip(e['l'])['n'] == d['n'])]
                byaddr = any(e['k'] == 'call' and any(isinstance(strip(a), dict) and strip(a).get('k') == 'un' and strip(a).get('op') == '&' and
                                                     isinstance(strip(strip(a)['e']), dict) and strip(strip(a)['e']).get('n') == d['n']
                                                     for a in (e.get('args') or [])) for e in f.events('call'))
                vals = [(e, e.get('init')) for e in defs if e['k'] == 'decl' and e.get('init') is not None] + \
                    [(e, e.get('r')) for e in defs if e['k'] == 'asg' and e['op'] == '=']
                ops = {e['op'] for e in defs if e['k'] == 'asg' and e['op'] != '='}
                if vals and not byaddr:
                    init = f.single_def(d['n'])
                    if init is not None and not ops:
                        bs = [_b(f, ev, facts, init, depth + 1)]
                    else:
                        # several definitions: the union of what is assigned (flow-insensitive, evaluated without
                        # the facts of this program point); a definition that leads back here contributes nothing
                        # (each value is evaluated under the facts of its own definition site)
                        bs = [_b(f, de, f.facts_at(de), v, depth + 1) for de, v in vals]
                    bs = [b for b in bs if not (b[0] == INF and b[1] == -INF)]
                    if not bs and len(_VISITING) > 1:
                        return INF, -INF        # defined only in terms of a variable under evaluation
                    if bs:
                        l2, h2 = min(b[0] for b in bs), max(b[1] for b in bs)
                        if not ops:
                            lo, hi = max(lo, l2), min(hi, h2)
                        elif ops <= {'--', '-='}:
                            hi = min(hi, h2)
                        elif ops <= {'++', '+='}:
                            lo = max(lo, l2)
            finally:
                _VISITING.discard(d['n'])
        elif d.get('vk') == 'local' and d['n'] in _VISITING:
            return INF, -INF                # cyclic definition: no contribution of its own
        return lo, hi
    if k == 'bin':
        op = d['op']
        l1, h1 = _b(f, ev, facts, d['l'], depth)
        l2, h2 = _b(f, ev, facts, d['r'], depth)
        if (l1 == INF and h1 == -INF) or (l2 == INF and h2 == -INF):
            return lo, hi       # arithmetic on a variable that is defined through itself: unknown
        if op == '+':
            return max(lo, l1 + l2), min(hi, h1 + h2)
        if op == '-':
            return max(lo, l1 - h2), min(hi, h1 - l2)
        if op == '/' and l2 == h2 and l2 > 0:
            fl = lambda x: x if x in (INF, -INF) else (x // l2 if x >= 0 else -((-x) // l2))
            return max(lo, fl(l1)), min(hi, fl(h1))
        if op == '*' and l1 >= 0 and l2 >= 0:
            return max(lo, l1 * l2), min(hi, h1 * h2)
        if op == '&' and (l2 == h2 and l2 >= 0):
            return max(lo, 0), min(hi, l2)
        if op == '&' and (l1 == h1 and l1 >= 0):
            return max(lo, 0), min(hi, l1)
        if op == '%' and l2 == h2 and l2 > 0 and l1 >= 0:
            return max(lo, 0), min(hi, l2 - 1)
        if op == '>>' and l1 >= 0:
            return max(lo, 0), hi
        return lo, hi
    if k == 'sizeof':
        return lo, hi
    if k == 'call' and d.get('name') in RETURNS_AT_MOST and len(d.get('args') or []) > RETURNS_AT_MOST[d['name']]:
        # read(fd, buf, n) <= n ; fread(buf, size, n, f) <= n  (items)
        l2, h2 = _b(f, ev, facts, d['args'][RETURNS_AT_MOST[d['name']]], depth)
        return lo, min(hi, h2)
    if k == 'call' and d.get('name', '').endswith('::size') or (k == 'call' and d.get('name', '').endswith('size')):
        return max(lo, 0), hi
    return lo, hi


def upper_by_fact(f, ev, d, pred):
    """There is a guard fact `d < X` (true) with pred(X) — a symbolic upper bound."""
    key = dstr(strip(d))
    for k, (pol, atom) in f.facts_at(ev).items():
        a = strip(atom)
        if isinstance(a, dict) and a.get('k') == 'bin' and a['op'] == '<' and pol and \
                dstr(strip(a['l'])) == key and pred(a['r']):
            return True
    return False


def lower_bound_on_all_paths(f, ev, d, c):
    """Every path from the function entry to event ev takes a branch edge whose facts alone imply
    d >= c (path-sensitive: infeasible combinations of branch outcomes are not followed)."""
    key = dstr(strip(d))

    def edge_ok(b, i, s2):
        facts = {k: (pol, atom) for k, pol, atom in f.edge_facts(b, i)}
        lo, hi = _facts_bounds(f, facts, key)
        for x in sorted(_NE.get(key, ())):
            if x == max(lo, 0):
                lo = max(lo, 0) + 1
        return not lo >= c
    return f.find_path(None, lambda x: x is ev, from_succ=f.entry, edge_ok=edge_ok) is None
