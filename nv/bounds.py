"""Fact-driven interval evaluation (template TB): lower / upper bound of an integer expression at
an event, from (a) literals and constants, (b) guard facts about variables that hold at the
event (kills already applied by the guard-fact analysis), (c) the unsigned type of a variable,
(d) the single definition of a local, (e) monotone update patterns (a local that is only ever
decremented after its declaration keeps its initial upper bound)."""
from model import strip, dstr, const_value, walk

INF = float('inf')

# library calls whose result is bounded by one of their arguments (index of that argument);
# snprintf / vsnprintf are deliberately absent: they return the length the text *would* have had
RETURNS_AT_MOST = {'read': 2, 'fread': 2, 'fwrite': 2, 'recv': 2, 'pread': 2}


def _facts_bounds(f, facts, key):
    """(lo, hi) implied for the expression with canonical string `key` by the guard facts."""
    lo, hi = -INF, INF
    for k, (pol, atom) in facts.items():
        a = strip(atom)
        if not (isinstance(a, dict) and a.get('k') == 'bin' and a['op'] in ('<', '==')):
            continue
        l, r = strip(a['l']), strip(a['r'])
        lk, rk = dstr(l), dstr(r)
        lc, rc_ = const_value(l), const_value(r)
        if a['op'] == '<':
            if lk == key and rc_ is not None:
                if pol:
                    hi = min(hi, rc_ - 1)       # key < c
                else:
                    lo = max(lo, rc_)           # !(key < c)  => key >= c
            if rk == key and lc is not None:
                if pol:
                    lo = max(lo, lc + 1)        # c < key
                else:
                    hi = min(hi, lc)            # !(c < key)  => key <= c
        elif a['op'] == '==' and pol:
            if lk == key and rc_ is not None:
                lo, hi = max(lo, rc_), min(hi, rc_)
    return lo, hi


def bounds(f, ev, d, depth=0):
    """(lo, hi) of descriptor d at event ev in function f; ±inf when unknown."""
    facts = f.facts_at(ev) if ev is not None else {}
    return _b(f, ev, facts, d, depth)


def _b(f, ev, facts, d, depth):
    d0 = d
    d = strip(d) if not (isinstance(d, dict) and d.get('k') == 'cast') else d
    if isinstance(d0, dict) and d0.get('k') == 'cast':
        lo, hi = _b(f, ev, facts, d0['e'], depth)
        ty = d0.get('ty') or ''
        if 'unsigned' in ty or ty in ('size_t', 'uint32_t', 'uint64_t'):
            if lo < 0:
                return 0, INF       # a negative value converts to a huge one
        return lo, hi
    if not isinstance(d, dict):
        return -INF, INF
    c = const_value(d)
    if c is not None:
        return c, c
    k = d.get('k')
    key = dstr(d)
    lo, hi = _facts_bounds(f, facts, key)
    if k == 'var':
        if d.get('tk') == 'uint' or (d.get('ty') or '').startswith(('unsigned', 'size_t', 'uint')):
            lo = max(lo, 0)
        if depth < 4 and d.get('vk') == 'local':
            init = f.single_def(d['n'])
            if init is not None:
                l2, h2 = _b(f, ev, facts, init, depth + 1)
                lo, hi = max(lo, l2), min(hi, h2)
            else:
                # monotone: declaration + only decrements  => initial upper bound persists
                defs = [e for e in f.events() if (e['k'] == 'decl' and e['n'] == d['n']) or
                        (e['k'] == 'asg' and isinstance(strip(e['l']), dict) and strip(e['l']).get('k') == 'var'
                         and strip(e['l'])['n'] == d['n'])]
                decl = [e for e in defs if e['k'] == 'decl' and e.get('init') is not None]
                others = [e for e in defs if e['k'] == 'asg']
                plain = [e for e in others if e['op'] == '=']
                if plain and len(plain) == len(others) and all(x.get('init') is None for x in decl) and depth < 3:
                    # declared without a value, then only plainly assigned: the union of the assigned values
                    bs = [_b(f, None, {}, e.get('r'), depth + 1) for e in plain]
                    lo, hi = max(lo, min(b[0] for b in bs)), min(hi, max(b[1] for b in bs))
                if len(decl) == 1 and others and all(e['op'] in ('--', '-=') for e in others):
                    l2, h2 = bounds(f, decl[0], decl[0]['init'], depth + 1)
                    hi = min(hi, h2)
                if len(decl) == 1 and others and all(e['op'] in ('++', '+=') for e in others):
                    l2, h2 = bounds(f, decl[0], decl[0]['init'], depth + 1)
                    lo = max(lo, l2)
        return lo, hi
    if k == 'bin':
        op = d['op']
        l1, h1 = _b(f, ev, facts, d['l'], depth)
        l2, h2 = _b(f, ev, facts, d['r'], depth)
        if op == '+':
            return max(lo, l1 + l2), min(hi, h1 + h2)
        if op == '-':
            return max(lo, l1 - h2), min(hi, h1 - l2)
        if op == '/' and l2 == h2 and l2 > 0:
            fl = lambda x: x if x in (INF, -INF) else (x // l2 if x >= 0 else -((-x) // l2))
            return max(lo, fl(l1)), min(hi, fl(h1))
        if op == '*' and l1 >= 0 and l2 >= 0:
            return max(lo, l1 * l2), min(hi, h1 * h2)
        if op == '&' and (l2 == h2 and l2 >= 0):
            return max(lo, 0), min(hi, l2)
        if op == '&' and (l1 == h1 and l1 >= 0):
            return max(lo, 0), min(hi, l1)
        if op == '%' and l2 == h2 and l2 > 0 and l1 >= 0:
            return max(lo, 0), min(hi, l2 - 1)
        if op == '>>' and l1 >= 0:
            return max(lo, 0), hi
        return lo, hi
    if k == 'sizeof':
        return lo, hi
    if k == 'call' and d.get('name') in RETURNS_AT_MOST and len(d.get('args') or []) > RETURNS_AT_MOST[d['name']]:
        # read(fd, buf, n) <= n ; fread(buf, size, n, f) <= n  (items)
        l2, h2 = _b(f, ev, facts, d['args'][RETURNS_AT_MOST[d['name']]], depth)
        return lo, min(hi, h2)
    if k == 'call' and d.get('name', '').endswith('::size') or (k == 'call' and d.get('name', '').endswith('size')):
        return max(lo, 0), hi
    return lo, hi


def upper_by_fact(f, ev, d, pred):
    """There is a guard fact `d < X` (true) with pred(X) — a symbolic upper bound."""
    key = dstr(strip(d))
    for k, (pol, atom) in f.facts_at(ev).items():
        a = strip(atom)
        if isinstance(a, dict) and a.get('k') == 'bin' and a['op'] == '<' and pol and \
                dstr(strip(a['l'])) == key and pred(a['r']):
            return True
    return False
