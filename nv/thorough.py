"""Thorough tier: what is added to the quick decision.

(1) configurations: the same rules are decided again over the facts of two more preprocessor
    configurations of the current /repo source (debug: asserts compiled in; pselect: the
    non-ppoll variant of SubprocessSet::DoWork).  A violation in any configuration is a violation.
(2) checker validation (sensitivity / specificity; recorded, never part of the verdict): every
    stored property-breaking change for this property (seeded/<id>/patch.diff from independent
    sub-agents, mutants/<Cxx>/*.patch written by hand) is applied to a scratch copy of the
    current sources under $TMPDIR and the property's rules are run on the copy; they must fire.
    Every behaviour-preserving patch under mutants/benign must leave the rules silent.
(3) cross-reference (recorded, never part of the verdict): clang-tidy bugprone-* / cppcheck
    counts on the files the property's obligations live in.
Nothing here executes ninja, its tests or a model; scratch copies are removed before returning."""
import concurrent.futures
import glob
import json
import os
import re
import shutil
import subprocess
import sys
import tempfile
import time

VERIF = os.path.dirname(os.path.dirname(os.path.abspath(__file__)))
CHECK = os.path.join(VERIF, 'nv', 'check.py')
REPO = os.environ.get('NV_REPO', '/repo')


def _run_check(pid, env_extra, evid):
    env = dict(os.environ, NV_EVIDENCE=evid, VERIF_TIER='quick')
    env.update(env_extra)
    r = subprocess.run([sys.executable, CHECK, pid, '--tier', 'quick'], env=env, stdout=subprocess.PIPE,
                       stderr=subprocess.STDOUT, text=True)
    viol = []
    rp = os.path.join(evid, 'replay')
    if os.path.isdir(rp):
        for f in sorted(os.listdir(rp)):
            if f.startswith(pid + '-'):
                try:
                    viol.append(json.load(open(os.path.join(rp, f))))
                except Exception:
                    pass
    ev = {}
    try:
        ev = json.load(open(os.path.join(evid, pid + '.json')))
    except Exception:
        pass
    return r.returncode, r.stdout, viol, ev


def configurations(pid, tmp):
    out = {}
    for cfg in ('debug', 'pselect'):
        t0 = time.time()
        rc, text, viol, ev = _run_check(pid, {'NV_CONFIG': cfg}, os.path.join(tmp, 'ev-' + cfg))
        out[cfg] = {'rc': rc, 'violations': viol, 'obligations': (ev.get('coverage') or {}).get('evaluations'),
                    'functions': (ev.get('coverage') or {}).get('functions_analysed'), 'wall_s': round(time.time() - t0, 2),
                    'broken': [l for l in text.splitlines() if l.startswith('ANALYSIS-BROKEN')][:2]}
    return out


CAUGHT_BY = {}


def _touched(patch):
    try:
        return {l.split('src/', 1)[1].strip() for l in open(patch) if l.startswith('+++ ') and 'src/' in l}
    except OSError:
        return set()


def _patches(pid, files=None):
    items = []
    for d in sorted(glob.glob(os.path.join(VERIF, 'seeded', '*'))):
        mp = os.path.join(d, 'meta.json')
        pp = os.path.join(d, 'patch.adapted.diff') if os.path.exists(os.path.join(d, 'patch.adapted.diff')) else os.path.join(d, 'patch.diff')
        if not (os.path.exists(mp) and os.path.exists(pp)):
            continue
        try:
            meta = json.load(open(mp))
        except Exception:
            continue
        caught = json.dumps(meta.get('caught_by', ''))
        # a stored change belongs to this property if it was written against it or if this
        # property's rules are on record as catching it
        if meta.get('property') == pid or ('"%s:' % pid) in caught or ('%s(' % pid) in caught:
            items.append(('seeded/' + os.path.basename(d), pp, 'break', meta.get('property') == pid))
            CAUGHT_BY['seeded/' + os.path.basename(d)] = meta.get('caught_by')
    for pp in sorted(glob.glob(os.path.join(VERIF, 'mutants', pid, '*.patch'))):
        items.append(('mutants/%s/%s' % (pid, os.path.basename(pp)), pp, 'break', True))
    for pp in sorted(glob.glob(os.path.join(VERIF, 'mutants', 'benign', '*.patch'))) + \
            sorted(glob.glob(os.path.join(VERIF, 'benign', '*', 'patch.diff'))):
        ad = os.path.join(os.path.dirname(pp), 'patch.adapted.diff')
        if os.path.exists(ad):
            pp = ad             # re-based on a later fix: commit of /repo
        rel = os.path.relpath(pp, VERIF)
        # behaviour-preserving patches are relevant to a property when they touch a file its obligations live in
        if files is not None and not (_touched(pp) & set(files)):
            continue
        items.append((rel, pp, 'benign', True))
    return items


def _one_patch(args):
    pid, name, patch, kind, own, tmp = args
    d = tempfile.mkdtemp(prefix='nvth-', dir=tmp)
    try:
        os.makedirs(os.path.join(d, 'repo'))
        shutil.copytree(os.path.join(REPO, 'src'), os.path.join(d, 'repo', 'src'))
        shutil.copy(os.path.join(REPO, 'CMakeLists.txt'), os.path.join(d, 'repo', 'CMakeLists.txt'))
        p = subprocess.run(['patch', '-p1', '--fuzz=3', '-s', '-i', patch], cwd=os.path.join(d, 'repo'),
                           stdout=subprocess.PIPE, stderr=subprocess.STDOUT, text=True)
        if p.returncode != 0:
            return name, kind, own, 'does-not-apply', []
        rc, text, viol, ev = _run_check(pid, {'NV_REPO': os.path.join(d, 'repo'), 'NV_CACHE': os.path.join(d, 'cache'),
                                              'NV_CONFIG': 'release'}, os.path.join(d, 'ev'))
        rules = sorted({'%s [%s]' % (v['rule'], v['construct'][:60]) for v in viol})
        if rc == 2:
            rules.append('analysis-broken')
        return name, kind, own, {0: 'silent', 1: 'fires', 2: 'exit2'}.get(rc, 'rc%d' % rc), rules[:5]
    finally:
        shutil.rmtree(d, ignore_errors=True)


def corpus(pid, tmp, files=None):
    items = _patches(pid, files)
    res = {'changes_that_break_the_property': [], 'behaviour_preserving': [], 'summary': {}}
    with concurrent.futures.ThreadPoolExecutor(max_workers=int(os.environ.get('NV_JOBS', '12'))) as ex:
        for name, kind, own, outcome, rules in ex.map(_one_patch, [(pid, n, p, k, o, tmp) for n, p, k, o in items]):
            rec = {'patch': name, 'outcome': outcome, 'rules': rules}
            if kind == 'break':
                rec['written_against_this_property'] = own
                res['changes_that_break_the_property'].append(rec)
            else:
                res['behaviour_preserving'].append(rec)
    br = res['changes_that_break_the_property']
    bn = res['behaviour_preserving']
    res['summary'] = {
        'breaking_total': len(br), 'breaking_detected': sum(1 for r in br if r['outcome'] in ('fires', 'exit2')),
        'breaking_missed': [r['patch'] for r in br if r['outcome'] == 'silent'],
        'missed_here_but_on_record_as_caught_by': {r['patch']: CAUGHT_BY.get(r['patch']) for r in br
                                                   if r['outcome'] == 'silent' and CAUGHT_BY.get(r['patch'])},
        'benign_total': len(bn), 'benign_silent': sum(1 for r in bn if r['outcome'] == 'silent'),
        'benign_alarms': [r['patch'] for r in bn if r['outcome'] in ('fires', 'exit2')],
        'not_applicable_to_this_tree': [r['patch'] for r in br + bn if r['outcome'] == 'does-not-apply'],
    }
    return res


def lint(files, tmp):
    """clang-tidy bugprone-* and cppcheck over the given src files: counts per check."""
    from facts import FLAGS
    files = [f for f in files if f.endswith('.cc') and os.path.exists(os.path.join(REPO, 'src', f))][:12]
    out = {'files': files, 'clang_tidy': {}, 'cppcheck': {}}
    checks = '-*,bugprone-*,-bugprone-easily-swappable-parameters,-bugprone-narrowing-conversions,-bugprone-implicit-widening-of-multiplication-result,-bugprone-reserved-identifier'

    def tidy(f):
        r = subprocess.run(['clang-tidy-14', '-checks=' + checks, '-header-filter=.*src/.*', os.path.join(REPO, 'src', f), '--'] +
                           [x for x in FLAGS if x != '-Wno-everything'], stdout=subprocess.PIPE, stderr=subprocess.DEVNULL, text=True, timeout=600)
        return re.findall(r'^(/[^:]+):(\d+):\d+: warning: .*\[([\w.,-]+)\]$', r.stdout, re.M)
    seen = set()
    try:
        with concurrent.futures.ThreadPoolExecutor(max_workers=8) as ex:
            for hits in ex.map(tidy, files):
                for path, line, chk in hits:
                    if '/src/' not in path or (path, line, chk) in seen:
                        continue
                    seen.add((path, line, chk))
                    out['clang_tidy'][chk] = out['clang_tidy'].get(chk, 0) + 1
        out['clang_tidy_sites'] = sorted('%s:%s %s' % (os.path.basename(p), l, c) for p, l, c in seen)[:40]
    except Exception as e:
        out['clang_tidy_error'] = str(e)[:200]
    try:
        r = subprocess.run(['cppcheck', '--enable=warning,portability', '--inline-suppr', '--quiet', '--template={file}:{line} {id}',
                            '-I', os.path.join(REPO, 'src'), '-DNDEBUG', '-DUSE_PPOLL=1'] + [os.path.join(REPO, 'src', f) for f in files],
                           stdout=subprocess.PIPE, stderr=subprocess.STDOUT, text=True, timeout=900)
        sites = sorted(set(l.strip() for l in r.stdout.splitlines() if re.match(r'^/.*:\d+ \w+', l.strip())))
        for s in sites:
            cid = s.split()[-1]
            out['cppcheck'][cid] = out['cppcheck'].get(cid, 0) + 1
        out['cppcheck_sites'] = [os.path.basename(s) for s in sites][:40]
    except Exception as e:
        out['cppcheck_error'] = str(e)[:200]
    return out


def run(ctx):
    """Called by check.py after the rules of the release configuration were evaluated and before
    the verdict is taken: adds violations found in the other configurations to ctx and stores
    the validation / cross-reference record under coverage.thorough."""
    pid = ctx.prop
    tmp = tempfile.mkdtemp(prefix='nv-thorough-%s-' % pid)
    t0 = time.time()
    try:
        cfg = configurations(pid, tmp)
        known = {(v['rule'], v['function'], v['construct'], v['where']) for v in ctx.violations}
        broken = []
        for c, r in cfg.items():
            if r['rc'] == 2:
                broken.append('%s: %s' % (c, '; '.join(r['broken'])))
            for v in r['violations']:
                key = (v['rule'], v['function'], v['construct'], v['where'])
                if key in known:
                    continue
                known.add(key)
                v = dict(v)
                v['message'] = '[configuration %s] %s' % (c, v.get('message', ''))
                ctx.violations.append(v)
            r['violations'] = len(r['violations'])
        files = sorted({i['where'].split(':')[0].replace('src/', '') for i in ctx.instances if i['where'].startswith('src/')})
        rec = {
            'configurations': dict(cfg, release={'rc': 'decided in-process', 'obligations': len(ctx.instances)}),
            'checker_validation': corpus(pid, tmp, files + [f.replace('.cc', '.h') for f in files]),
            'cross_reference_lints': lint(files, tmp),
        }
        rec['wall_s'] = round(time.time() - t0, 1)
        ctx.thorough = rec
        if broken:
            from facts import AnalysisBroken
            raise AnalysisBroken('configuration run broken: ' + ' | '.join(broken))
    finally:
        shutil.rmtree(tmp, ignore_errors=True)
