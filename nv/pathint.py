"""Path-enumerating interval analysis for ONE integer local of a small function (abstract
interpretation, interval domain, one state per acyclic CFG path).  Used for the progress guarantee
of the capacity function (C06.L1)."""
from model import strip, dstr, const_value, norm_cond, walk

INF = float('inf')


def _truth(c, decided):
    """Truth of condition c given the branch conditions decided on the path ({(key, polarity)}), or None."""
    atom, pol = norm_cond(None, c)
    a = strip(atom)
    if isinstance(a, dict) and a.get('k') == 'bin' and a.get('op') in ('&&', '||'):
        l, r = _truth(a['l'], decided), _truth(a['r'], decided)
        absorbing = a['op'] == '||'
        if l is absorbing or r is absorbing:
            v = absorbing
        elif l is not None and r is not None:
            v = not absorbing
        else:
            return None
        return v if pol else not v
    k = dstr(atom)
    if (k, True) in decided:
        return pol
    if (k, False) in decided:
        return not pol
    return None


def _eval(d, var, iv, decided=frozenset()):
    """interval of descriptor d given interval iv of `var`; unknown leaves are (-inf, inf).  `decided`: the branch
    conditions the path took (a `c ? a : b` whose c the CFG already branched on is the arm of that branch)."""
    d = strip(d)
    if not isinstance(d, dict):
        return (-INF, INF)
    c = const_value(d)
    if c is not None:
        return (c, c)
    k = d.get('k')
    if k == 'var':
        return iv if d['n'] == var else (-INF, INF)
    if k == 'cond' and _truth(d['c'], decided) is not None:
        return _eval(d['t'] if _truth(d['c'], decided) else d['f'], var, iv, decided)
    if k == 'cond':
        t = _eval(d['t'], var, iv)
        f = _eval(d['f'], var, iv)
        # refine the arms by the condition when it is about var
        ct = _refine(d['c'], True, var, iv)
        cf = _refine(d['c'], False, var, iv)
        arms = []
        if ct is not None:
            arms.append(_eval(d['t'], var, ct))
        if cf is not None:
            arms.append(_eval(d['f'], var, cf))
        if not arms:
            return (-INF, INF)
        return (min(a[0] for a in arms), max(a[1] for a in arms))
    if k == 'bin' and d['op'] in ('+', '-'):
        l, r = _eval(d['l'], var, iv), _eval(d['r'], var, iv)
        return (l[0] + r[0], l[1] + r[1]) if d['op'] == '+' else (l[0] - r[1], l[1] - r[0])
    if k == 'call' and (d.get('name') or '').split('<')[0] in ('std::min', 'std::max') and len(d.get('args') or []) == 2:
        l, r = _eval(d['args'][0], var, iv), _eval(d['args'][1], var, iv)
        if (d.get('name') or '').split('<')[0] == 'std::min':
            return (min(l[0], r[0]), min(l[1], r[1]))
        return (max(l[0], r[0]), max(l[1], r[1]))
    return (-INF, INF)


def _refine(cond, taken, var, iv):
    """interval of var after `cond` evaluated to `taken`; None if infeasible."""
    atom, pol = norm_cond(None, cond)
    if not taken:
        pol = not pol
    a = strip(atom)
    lo, hi = iv
    if isinstance(a, dict) and a.get('k') == 'bin' and a['op'] in ('<', '=='):
        l, r = strip(a['l']), strip(a['r'])
        lv, rv = const_value(l), const_value(r)
        isv = lambda x: isinstance(x, dict) and x.get('k') == 'var' and x['n'] == var
        if a['op'] == '<':
            if isv(l) and rv is not None:
                if pol:
                    hi = min(hi, rv - 1)
                else:
                    lo = max(lo, rv)
            elif isv(r) and lv is not None:
                if pol:
                    lo = max(lo, lv + 1)
                else:
                    hi = min(hi, lv)
        elif isv(l) and rv is not None:
            if pol:
                lo, hi = max(lo, rv), min(hi, rv)
            else:
                if lo == rv:
                    lo += 1
                if hi == rv:
                    hi -= 1
    return None if lo > hi else (lo, hi)


def return_intervals(f, var, tag_edge=None, max_paths=4000):
    """For every acyclic entry->return path: (interval of the returned expression, set of tags
    collected from tag_edge(block, idx, edge facts) along the path, block list)."""
    out = []
    stack = [(f.entry, (-INF, INF), frozenset(), [f.entry], frozenset())]
    n = 0
    while stack:
        bid, iv, tags, path, decided = stack.pop()
        n += 1
        if n > max_paths:
            raise RuntimeError('too many paths in %s' % f.name)
        b = f.blocks[bid]
        done = False
        for e in b['ev']:
            # a remembered condition dies with a write to anything it names
            wn = None
            if e['k'] == 'decl':
                wn = e['n']
            elif e['k'] == 'asg':
                wl = strip(e['l'])
                wn = wl.get('n') if isinstance(wl, dict) and wl.get('k') in ('var', 'mem') else ''
            if wn is not None and decided:
                decided = frozenset(x for x in decided if wn and wn not in x[0]) if wn else frozenset()
            if e['k'] == 'decl' and e['n'] == var:
                iv = _eval(e.get('init'), var, iv) if e.get('init') is not None else (-INF, INF)
            elif e['k'] == 'asg' and isinstance(strip(e['l']), dict) and strip(e['l']).get('k') == 'var' and strip(e['l'])['n'] == var:
                if e['op'] == '=':
                    iv = _eval(e.get('r'), var, iv)
                elif e['op'] == '++':
                    iv = (iv[0] + 1, iv[1] + 1)
                elif e['op'] == '--':
                    iv = (iv[0] - 1, iv[1] - 1)
                else:
                    iv = (-INF, INF)
            elif e['k'] == 'ret':
                out.append((_eval(e.get('e'), var, iv, decided), tags, path, e))
                done = True
                break
        if done:
            continue
        for idx, s in enumerate(b['succ']):
            if s is None or s in path:
                continue
            niv = iv
            t = b.get('term')
            if t and 'cond' in t and len(b['succ']) == 2:
                c = f.eff_cond(bid)
                niv = _refine(c, idx == 0, var, iv)
                if niv is None:
                    continue
            nt = tags
            efs = f.edge_facts(bid, idx)
            if tag_edge:
                x = tag_edge(bid, idx, efs)
                if x:
                    nt = tags | {x}
            # conditions about the tracked variable are carried by its interval (it may be reassigned later); the others
            # are remembered as decided (the callers' functions do not reassign what they test - checked by `stable`)
            nd = decided | {(k_, pol_) for k_, pol_, a_ in efs if isinstance(pol_, bool)}
            stack.append((s, niv, nt, path + [s], nd))
    return out
