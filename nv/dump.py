"""Debug helper: print the CFG, events and guard facts of a function.  python3 nv/dump.py NAME"""
import sys
sys.path.insert(0, __import__('os').path.dirname(__file__))
from facts import load_facts
from model import Program, dstr, facts_str

facts, info = load_facts()
prog = Program(facts)
for name in sys.argv[1:]:
    for f in prog.by_name.get(name, []):
        print('==', f.id, f.loc, 'entry', f.entry, 'exit', f.exit, 'ret', f.retk)
        for bid in sorted(f.blocks, reverse=True):
            b = f.blocks[bid]
            t = b.get('term')
            print(' B%d -> %s %s%s' % (bid, b['succ'], ('[%s %s]' % (t['kind'], t.get('src', ''))) if t else '',
                                       ' NORETURN' if b.get('noreturn') else ''), b.get('label', ''))
            print('     facts:', facts_str(f.facts_at_block(bid)))
            for e in b['ev']:
                k = e['k']
                if k == 'call':
                    print('     call %s  disc=%s  | %s' % (e.get('name'), e.get('disc', False), e.get('src', '')[:90]))
                elif k == 'asg':
                    print('     asg  %s %s %s' % (dstr(e['l']), e['op'], dstr(e.get('r'))))
                elif k == 'decl':
                    print('     decl %s = %s' % (e['n'], dstr(e.get('init'))))
                elif k == 'ret':
                    print('     ret  %s' % dstr(e.get('e')))
                elif k in ('deref', 'idx'):
                    print('     %s %s' % (k, dstr(e.get('e') or e)))
                else:
                    print('     %s %s' % (k, e.get('name') or e.get('src') or ''))
