"""Exact value-set evaluation of small character predicates (template VS, part ii): for a function
(or loop body) that branches only on one `char` variable and constants, enumerate — over the CFG,
without executing anything — for which of the 256 byte values a given event is reachable."""
from model import strip, const_value, walk


TABLES = {}        # name of a global -> its evaluated constant value ("cvtab" of the facts), filled by the caller


def _table_of(b):
    b = strip(b)
    if not isinstance(b, dict):
        return None
    if b.get('k') == 'var' and b.get('vk') in ('global', 'static'):
        t = TABLES.get(b['n'])
        return t if isinstance(t, list) else None
    if b.get('k') == 'mem':
        base = strip(b.get('b'))
        if isinstance(base, dict) and base.get('k') == 'var' and base.get('vk') in ('global', 'static'):
            t = TABLES.get(base['n'])
            if isinstance(t, dict):
                v = t.get(b['n'])
                return v if isinstance(v, list) else None
    return None


def eval_int(d, env):
    """Integer value of descriptor d under env {var name: value}, or None."""
    d0 = d
    while isinstance(d, dict) and d.get('k') in ('tobool',):
        d = d['e']
    if isinstance(d, dict) and d.get('k') == 'cast':
        v = eval_int(d['e'], env)
        if v is None:
            return None
        ty = d.get('ty') or ''
        if 'unsigned char' in ty or ty == 'uint8_t':
            return v & 0xff
        return v
    if not isinstance(d, dict):
        return None
    c = const_value(d)
    if c is not None:
        return c
    k = d.get('k')
    if k == 'var':
        return env.get(d['n'])
    if k == 'idx':
        # a read of a constant table (const array / member array of a constexpr object) at a computable index
        tab = _table_of(d.get('b'))
        i = eval_int(d.get('i'), env)
        if tab is not None and i is not None and 0 <= i < len(tab) and isinstance(tab[i], (int, bool)):
            return int(tab[i])
        return None
    if k == 'un':
        v = eval_int(d['e'], env)
        if v is None:
            return None
        return {'!': int(not v), '-': -v, '~': ~v, '+': v}.get(d['op'])
    if k == 'bin':
        op = d['op']
        l = eval_int(d['l'], env)
        if op == '&&':
            if l == 0:
                return 0
            r = eval_int(d['r'], env)
            return None if (l is None or r is None) else int(bool(l) and bool(r))
        if op == '||':
            if l not in (None, 0):
                return 1
            r = eval_int(d['r'], env)
            return None if (l is None or r is None) else int(bool(l) or bool(r))
        r = eval_int(d['r'], env)
        if l is None or r is None:
            return None
        ops = {'<': lambda: int(l < r), '<=': lambda: int(l <= r), '>': lambda: int(l > r), '>=': lambda: int(l >= r),
               '==': lambda: int(l == r), '!=': lambda: int(l != r), '+': lambda: l + r, '-': lambda: l - r,
               '&': lambda: l & r, '|': lambda: l | r, '>>': lambda: l >> r, '<<': lambda: l << r, '*': lambda: l * r}
        try:
            return ops[op]() if op in ops else None
        except Exception:
            return None
    return None


def reachable_values(f, var, is_target, start_block=None, signed=True, stop=None):
    """Set of byte values (0..255) of char variable `var` for which an event satisfying is_target
    is reachable from start_block (default: function entry).  `stop(event)` ends a path."""
    out = set()
    for byte in range(256):
        v = byte - 256 if (signed and byte >= 128) else byte
        env = {var: v}
        seen = set()
        work = [start_block if start_block is not None else f.entry]
        hit = False
        while work and not hit:
            b = work.pop()
            if b in seen:
                continue
            seen.add(b)
            blk = f.blocks[b]
            stopped = False
            for e in blk['ev']:
                if is_target(e):
                    hit = True
                    break
                if stop and stop(e):
                    stopped = True
                    break
            if hit or stopped:
                continue
            t = blk.get('term')
            succ = blk['succ']
            if t and t['kind'] == 'switch' and 'cond' in t:
                cv = eval_int(t['cond'], env)
                if cv is not None:
                    chosen = None
                    default = None
                    for s in succ:
                        if s is None:
                            continue
                        lab = f.blocks[s].get('label') or {}
                        if lab.get('case') and lab['case'][0] <= cv <= lab['case'][1]:
                            chosen = s
                        if lab.get('default'):
                            default = s
                    nxt = chosen if chosen is not None else default
                    if nxt is None:
                        # no default label: the switch falls through to its last successor
                        nxt = succ[-1]
                    work.append(nxt)
                    continue
            if t and 'cond' in t and len(succ) == 2:
                c = f.eff_cond(b)
                cv = eval_int(c, env)
                if cv is not None:
                    nxt = succ[0] if cv else succ[1]
                    if nxt is not None:
                        work.append(nxt)
                    continue
            for s in succ:
                if s is not None:
                    work.append(s)
        if hit:
            out.add(byte)
    return out


def returned_by_byte(f, var, signed=True):
    """{byte: set of values the function can return for that byte} - a `return <expr>` is evaluated
    under the concrete byte; None in the set means "not decidable here"."""
    out = {}
    for byte in range(256):
        v = byte - 256 if (signed and byte >= 128) else byte
        env = {var: v}
        vals = set()
        seen = set()
        work = [f.entry]
        while work:
            b = work.pop()
            if b in seen:
                continue
            seen.add(b)
            blk = f.blocks[b]
            done = False
            for e in blk['ev']:
                if e['k'] == 'ret':
                    vals.add(eval_int(e.get('e'), env))
                    done = True
                    break
            if done:
                continue
            t = blk.get('term')
            succ = blk['succ']
            if t and t['kind'] == 'switch' and 'cond' in t:
                cv = eval_int(t['cond'], env)
                if cv is not None:
                    chosen = default = None
                    for s2 in succ:
                        if s2 is None:
                            continue
                        lab = f.blocks[s2].get('label') or {}
                        if lab.get('case') and lab['case'][0] <= cv <= lab['case'][1]:
                            chosen = s2
                        if lab.get('default'):
                            default = s2
                    nxt = chosen if chosen is not None else default
                    work.append(nxt if nxt is not None else succ[-1])
                    continue
            if t and 'cond' in t and len(succ) == 2:
                cv = eval_int(f.eff_cond(b), env)
                if cv is not None:
                    nxt = succ[0] if cv else succ[1]
                    if nxt is not None:
                        work.append(nxt)
                    continue
            for s2 in succ:
                if s2 is not None:
                    work.append(s2)
        out[byte] = vals
    return out


def returned_for_value(f, var, value, max_states=4000):
    """Set of values function f can return when its integer parameter `var` has the given value: the CFG is walked with an
    environment of the integer locals assigned so far (declarations and plain assignments whose right-hand side is
    computable); a branch whose condition is computable is followed on that side only.  None in the result means
    "some return value could not be computed"."""
    vals = set()
    seen = set()
    work = [(f.entry, ((var, value),))]
    n = 0
    while work:
        b, envt = work.pop()
        if (b, envt) in seen:
            continue
        seen.add((b, envt))
        n += 1
        if n > max_states:
            vals.add(None)
            break
        env = dict(envt)
        blk = f.blocks[b]
        done = False
        for e in blk['ev']:
            if e['k'] == 'ret':
                vals.add(eval_int(e.get('e'), env))
                done = True
                break
            name = rhs = None
            if e['k'] == 'decl' and e.get('init') is not None:
                name, rhs = e['n'], e['init']
            elif e['k'] == 'asg' and e.get('op') == '=' and isinstance(strip(e['l']), dict) and strip(e['l']).get('k') == 'var':
                name, rhs = strip(e['l'])['n'], e.get('r')
            if name is not None:
                v = eval_int(rhs, env)
                if v is None:
                    env.pop(name, None)
                else:
                    env[name] = v
        if done:
            continue
        envt2 = tuple(sorted(env.items()))
        t = blk.get('term')
        succ = blk['succ']
        if t and t.get('kind') == 'switch' and 'cond' in t:
            cv = eval_int(t['cond'], env)
            if cv is not None:
                chosen = default = None
                for s2 in succ:
                    if s2 is None:
                        continue
                    lab = f.blocks[s2].get('label') or {}
                    if lab.get('case') and lab['case'][0] <= cv <= lab['case'][1]:
                        chosen = s2
                    if lab.get('default'):
                        default = s2
                nxt = chosen if chosen is not None else default
                work.append((nxt if nxt is not None else succ[-1], envt2))
                continue
        if t and 'cond' in t and len(succ) == 2:
            cv = eval_int(f.eff_cond(b), env)
            if cv is not None:
                nxt = succ[0] if cv else succ[1]
                if nxt is not None:
                    work.append((nxt, envt2))
                continue
        for s2 in succ:
            if s2 is not None:
                work.append((s2, envt2))
    return vals
