"""What each registered check decides (feeds MANIFEST.json via gen_manifest.py)."""
CLAIMS = {
    'C05': {
        'design': '5.5',
        'technique': 'guard-fact dataflow + who-may-write + path-sensitive error discipline over clang CFG facts (after normalisation: new helpers inlined, new single-definition locals propagated)',
        'decides': 'success bookkeeping (outputs_ready_, --wanted_edges_, want_.erase, dyndep load, '
                   'NodeFinished) and build/deps-log records are reachable only under a succeeded result; '
                   'EdgeFinished call sites pass a result consistent with their guard; exit-code plumbing '
                   'from the failed command to exit(); failure-budget guards (decrement only on failure and '
                   'only while non-zero, starts guarded, reaping not guarded); wait-status decoding guarded '
                   'by WIFEXITED; missing-source error guard and its precedence over Builder::Build; no '
                   'failure edge of a fallible call reaches a success return in build.cc / ninja.cc. Builder::Build returns the recorded exit code only after a command failure was recorded; an output without a build-log entry is dirty (known finding: generator rules are exempt, so a failed generator command is not retried). Builder::Build returns ExitFailure from its stuck exit. Under WIFEXITED the exit code is returned as it is (an exit code 130/143 is a failure of the command, not an interrupt of the build). FinishCommand replaces result.status only where the command is known to have succeeded (a failure code is never overwritten).',
        'not_decided': 'which commands may legitimately start after a failure under a given schedule.',
    },
    'C06': {
        'design': '5.6',
        'technique': 'acquire/release pairing on all CFG paths + admission typestate + who-may-write + effect closure + compile-fail witnesses',
        'decides': 'pool usage counter has exactly the inverse writers EdgeScheduled/EdgeFinished and every '
                   'ready-queue push is paired with EdgeScheduled and bounded by the pool depth; the pool and '
                   'the jobserver slot are released independently of the command result; every admission of a '
                   'plan entry is preceded by a test excluding kWantToFinish and accompanied by the flip to '
                   'kWantToFinish (at most once); who writes which Plan::Want value; a slot acquired by '
                   'FindWork is on every path of Builder::Build released or handed to the runner, a completed '
                   'command always reaches a function that releases on all of its paths, Abort releases all '
                   'active edges; process-exit sites reachable while slots are held are enumerated against a '
                   'reasoned table; Jobserver::Slot cannot be copied or forged (compile-fail witnesses); the '
                   'console pool is the depth-1 pool. A moved-from Jobserver::Slot is invalid on every path of both move operations (release-twice is a no-op). RealCommandRunner::GetActiveEdges reports every entry of subproc_to_edge_ (Abort/Cleanup/ClearJobTokens act on that list); an explicit -j (and -n) disables the jobserver client and only a jobserver client lifts the parallelism bound; targets planned during the build are followed by a scheduling pass for ready edges. SubprocessSet::running_ keeps its order while the pollfd array built from it is in use; a completion that is already queued is handed out without calling DoWork() again. A saved position in the pollfd array (the jobserver\'s) names the entry that is pushed next under the conditions of its use. After SIGCHLD every running console subprocess is polled (s_sigchld_received is a 0/1 flag).',
        'not_decided': 'the numeric -j / load-average capacity formula (CanRunMore), "never idles" and '
                       '"always terminates" (liveness).',
    },
    'C04': {
        'design': '5.4',
        'technique': 'who-may-call/write + guard facts + full-range loop and per-iteration must-pass-through over clang CFG facts',
        'decides': 'edges are admitted to the ready queue / a pool only where AllInputsReady() is known true; '
                   'AllInputsReady iterates the whole inputs_ range, consults every producer and ignores '
                   'validations; who may set outputs_ready_ (true only on success or as the scan\'s initial '
                   'value); the only spawn chain is Build -> StartEdge -> StartCommand with the edge returned by '
                   'FindWork; in StartEdge MakeDirs for every output (every loop iteration), MakeDirs(depfile) '
                   'and WriteFile(rspfile, rspfile_content) precede StartCommand and their failure cannot reach '
                   'it; after a build-time dyndep load every output is examined, dyndep info is loaded before '
                   'dependents are woken, and the re-plan precedes readiness re-evaluation; functions inserting '
                   'into inputs_ register out-edges.',
        'not_decided': 'the for-all-schedules ordering itself (an induction over run-time states that is not mechanised).',
    },
    'C11': {
        'design': '5.11',
        'technique': 'path-sensitive RejectIf guards + error discipline + splice/loop consistency + who-may-call over clang CFG facts',
        'decides': 'no failure edge of a fallible call in the dyndep parser/loader reaches a success return and no '
                   'pointer is returned as bool; each documented rejection (missing/unsupported version, unknown '
                   'or duplicate statement, explicit outputs/inputs, rule name, order-only inputs, foreign '
                   'binding, empty path, edge not mentioned, extra entry, output already produced, dyndep not an '
                   'input) has a branch whose rejecting side cannot reach success; UpdateEdge splices inputs into '
                   'the implicit range and outputs at the end with matching counters and registers in-/out-edges '
                   'for every spliced node; the pending flag is set only by the manifest parser and cleared at '
                   'the loader entry; scan-time loads happen only behind the pending test and never while the '
                   'producer still has to run; at build time every output of a finished edge is examined, the '
                   'plan walk skips an edge only if it is ready or not in the plan; parsed paths are '
                   'canonicalised before interning. On every visit of an edge the scan stats its outputs before computing their dirtiness; validations found by a mid-build re-scan are planned unconditionally and followed by a scheduling pass. The re-check used by restat pruning stores exactly the verdict of all(most_recent_input) (no shortcut while a dyndep file is pending). Node::dyndep_pending_ has no writer besides its setter (no per-scan reset clears it); a binding is added to edge->env_ only when that scope is the edge\'s own (Edge::has_own_env_) or was just created for it (D22). Every edge flipped to kWantToStart by RefreshDyndepDependents is passed to EdgeWanted.',
        'not_decided': 'equivalence with the manifest that has the information written in; schedule-dependent '
                       're-want logic in RefreshDyndepDependents.',
    },
    'C17': {
        'design': '5.17',
        'technique': 'who-may-write colouring protocol + dominance/must-pass-through order + provenance + skip-exactness over clang CFG facts',
        'decides': 'who writes which DFS colour; in the scan the VisitDone early exit and a successful VerifyDAG '
                   'precede mark_ = VisitInStack, which dominates every descent, and every success return passes '
                   'VisitDone and pop_back; VerifyDAG rejects exactly under mark_ == VisitInStack and always with '
                   'a message; validation nodes are queued and never recursed into, AllInputsReady ignores them, '
                   'the driver clears the stack per queued node; after a dyndep load the re-scanned nodes are '
                   'exactly those un-marked beforehand and an in-plan dependent is never left marked; a failed '
                   'scan / VerifyDAG never becomes a success return (graph.cc, AddTarget, dyndep re-plan). Plan::UnmarkDependents descends through every not-yet-visited output (no other pruning); a dyndep load issued by the scan machinery is followed by a re-scan of the dependents (known finding: scan-time load in RecomputeNodeDirty); Builder::Build returns the recorded exit code only after a command failure was recorded and never ExitSuccess after storing an error text. After a manifest-regeneration build that ran, RebuildManifest lets the real build go on only from a reset State (every go-on return behind a successful Build() passes State::Reset).',
        'not_decided': 'that the printed cycle is an actual cycle of the graph; completeness across dyndep re-scans.',
    },
    'C18': {
        'design': '5.18',
        'technique': 'who-may-call + provenance of deleted paths + sibling guard agreement + full-range/skip-exactness loops over clang CFG facts',
        'decides': 'the cleaner removes files only through Remove -> RemoveFile under !dry_run and performs no other '
                   'file-system effect; every path handed to Remove is an element of some outputs_, a depfile, an '
                   'rspfile, or a build-log key under the dead guard (never inputs_/validations_); the three scopes '
                   'agree on the phony exclusion and are compared on the generator exclusion; all-edges/all-outputs '
                   'loops are full-range, depfile and rspfile are covered, dyndep files are loaded first (skipped '
                   'only if absent or already loaded); by-target recursion marks before descending. Cleaner::RemoveEdgeFiles skips the depfile / rspfile only when the edge has none. RemoveFile reports "not there" only from remove()\'s own ENOENT and never probes the path with a call that follows symlinks. `-t clean -r` selects statements by rule name; whether a log key is dead is decided by the node\'s producer and consumers (both tests present).',
        'not_decided': 'that a following build re-creates the removed files.',
    },
    'C01': {
        'design': '5.1',
        'technique': 'RejectIf dirty verdicts + timestamp comparison contract + full-range/skip-exact loops + reaching-definition typestate + provenance over clang CFG facts',
        'decides': 'each dirty reason (missing output, output older than input, command hash, logged mtime older '
                   'than input, no log entry) has a branch whose dirty side cannot return clean, in both '
                   'instantiations of the check; the timestamp comparisons that control verdicts have the '
                   'documented relation and direction (deps validity, max-updates), and no unlisted timestamp '
                   'comparison exists in graph.cc/build.cc; the scan covers the whole input range (initial range '
                   '= inputs_, discovered range = what LoadDeps returned) with no extra skip and re-checks outputs '
                   'afterwards; deps loading is skipped only under a variable whose sole definitions are the '
                   'outputs-dirty result (so Plan::CleanNode cannot revoke a verdict taken without deps); the '
                   'recorded mtime is the pre-spawn lock-file stat except for restat/generator/unknown; the plan '
                   'recurses into every input, wants exactly dirty nodes, adds all validations; a rebuilt manifest '
                   'is re-read before building; discovered paths are canonicalised before interning; scan/plan '
                   'errors never become success. RealDiskInterface::Stat follows symlinks (stat/stat64, never lstat): every compared timestamp is that of the file content. The output check returns its verdict after the loop over all outputs (from inside the loop only as dirty), also for phony edges.',
        'not_decided': 'equality of file contents with a from-scratch build over histories and schedules; anything '
                       'depending on real mtimes; correctness of the plan under dyndep surgery.',
    },
    'C02': {
        'design': '5.2',
        'technique': 'writer/reader table agreement (hash chain, flag accessors, template instantiations) + strict comparison contract + provenance + who-may-write over clang CFG facts',
        'decides': 'the logged command hash and the hash the scan compares with it come from the same chain '
                   'HashCommand(EvaluateCommand(true)); restat/generator are read through the same accessor by scan '
                   'and builder; both instantiations of the output check apply the restat shortcut under the same '
                   'conditions; RecordCommand writes one entry per output keyed by its path and the scan looks up '
                   'by the same key; the dirty relations are strict; deps are recorded with Stat() of the same '
                   'output; restat pruning uses == and falls back to the start time; AlreadyUpToDate == '
                   '!more_to_do() and an up-to-date plan returns success without reaching Build; the build log '
                   'is reopened lazily in append mode after Close(). Plan::CleanNode prunes (un-want / recursion) only after RecomputeOutputsDirty re-examined that very edge. The validation nodes a mid-build re-scan reports are planned for every re-scanned dependent, dirty or not; the restat shortcut of the output check is stated over its three conditions, however they are stored. Outputs are statted after the edge\'s pending dyndep file was loaded (outputs it adds are statted too); a depfile\'s canonical length is stored into the object that is used afterwards. The deps record whose mtime is compared with an output\'s mtime was looked up for that same output.',
        'not_decided': 'that the times recorded at run time dominate the inputs\' times (clock / file system); '
                       'multi-session interplay.',
    },
    'C03': {
        'design': '5.3',
        'technique': 'guard facts (required and forbidden) + loop-bound provenance + sibling counter agreement over clang CFG facts',
        'decides': 'in the inputs scan only non-order-only inputs influence dirtiness / most-recent-input while '
                   'readiness propagation is not filtered by kind; is_order_only has the documented definition; the '
                   'restat prune examines exactly [begin, end - order_only); changed command / missing log entry '
                   'do not dirty generator rules and the generator flag exempts nothing else; a phony edge is '
                   'dirty only with no inputs, no validations and a missing output, and adopts input mtimes only '
                   'while missing (max); CleanNode un-wants only under all-inputs-clean and outputs-clean, paired '
                   'with the counters, and the non-phony counter/status adjustments mirror EdgeWanted; edges whose '
                   'outputs are ready are never inserted into the plan. Plan::CleanNode prunes (un-want / recursion) only after RecomputeOutputsDirty re-examined that very edge. The all-inputs-clean test of CleanNode asks Node::dirty() itself (or a trivial wrapper). What DependencyScan::RecomputeOutputsDirty reports to the restat prune is the value of the full output check all(most_recent_input) on every successful return.',
        'not_decided': 'equality of the executed command set with a reference make-semantics model.',
    },
    'C10': {
        'design': '5.10',
        'technique': 'splice/partition consistency + provenance of inserted ranges + who-may-write/call + path search (typestate of deps knowledge) over clang CFG facts',
        'decides': 'dependency loaders insert discovered inputs at inputs_.end() - order_only_deps_ with a matching '
                   'implicit_deps_ increment and never touch order_only_deps_; the deps-log loader inserts the whole '
                   'recorded array, the depfile loader stores a node and registers an out-edge for every parsed '
                   'entry, nobody edits the parsed lists, ExtractDeps turns every parsed entry into a recorded '
                   'node; only State::AddIn/AddOut/AddValidation mark manifest provenance and loaders use GetNode '
                   '(a vanished discovered dep means rebuild, not error); deps are recorded for every output and a '
                   'failed extraction records nothing; depfile/gcc/msvc paths are canonicalised before interning; '
                   'strong typestate: a first scan ends with discovered deps spliced in or deps_missing_ set '
                   '(violated today: known finding). With a deps type and outside a dry run no success return of FinishCommand avoids RecordDeps; CLParser consults the input-file-name filter only for lines the /showIncludes filter did not recognise. The follow-up output check (after discovered inputs are known) gives no clean verdict with a log entry and a newest input unless the logged mtime was compared with that input (C10.CC). After ReadFile of a depfile the loaders go on only behind a branch that established Okay or NotFound (an unreadable depfile is an error). What DepfileParser::Parse adds to ins_ does not depend on the targets seen.',
        'not_decided': 'metamorphic equality with the variant of a scenario in which the dependency is declared.',
    },
    'C08': {
        'design': '5.8',
        'technique': 'null-check discipline + writer/reader format table agreement + must-pass-through (flush, whole record) + write-set and skip-exactness + temp-then-replace order over clang CFG facts',
        'decides': 'every memchr result in BuildLog::Load is tested and the null / no-newline side updates no entry; one '
                   'record is one fprintf ending in one newline and is flushed before the next record or success; the '
                   'written format and the parse sequence agree field by field (conversion, base, separator, order) '
                   'and share the header constant and version range; applying a record overwrites all four fields; an '
                   'unsupported version is unlinked, loads nothing and yields LOAD_NOT_FOUND, callers fail only on '
                   'LOAD_ERROR; Restat writes only mtime, from Stat, for entries selected by full equality; Recompact '
                   'writes no field, drops/erases only paths reported dead; IsPathDead is true only as Stat==0 of a '
                   'path without producer; rewrites go Close -> temp file -> fclose -> ReplaceContent (unlink then '
                   'rename, failures propagated). The log header is written exactly when a size/position query on the opened stream says the file is empty. LineReader searches for the newline up to the end of the buffered data (p + n = buf_end_ in linear form); Restat refreshes an entry only if no outputs were named or its output equals a named one (flag or control-flow idiom). The build log is closed before a generator edge is started; appending starts at a line boundary (D19). Load: the later line of the file wins (every way from the table lookup to the next line passes the four stores); a torn line is skipped and reading goes on.',
        'not_decided': 'equality of the loaded state with a model folded over the complete lines for all byte prefixes; '
                       'buffer arithmetic inside LineReader.',
    },
    'C09': {
        'design': '5.9',
        'technique': 'fact-driven interval bounds on file-derived values (taint/bounds) + path-sensitive EOF/truncate discipline + writer/reader layout agreement + must-precede (flush before memory) + skip-exactness over clang CFG facts',
        'decides': 'every file-derived value used in DepsLog::Load as subscript, allocation count or read size is '
                   'bounded on both sides on every path (ids in [0, nodes_.size()), record words inside the record, '
                   'count >= 0, reads <= sizeof(buf)); a short read or malformed record reaches success only through '
                   'Truncate(path, offset) or with ftell == offset; offset advances last and never after a failure; '
                   'checksum/duplicate-id mismatches are rejected; the word layout written by RecordDeps/RecordId '
                   '(kind bit, id, mtime low/high, ids; path, padding <= 3, complement checksum) agrees with what '
                   'Load reads; oversized records are refused before any write and the stdio buffer holds a whole '
                   'record; all fwrites precede one fflush and memory is updated only after it succeeded; the '
                   '"unchanged" shortcut compares mtime, count and every element (no unscaled memcmp); recompaction '
                   'removes a stale temp, resets all ids, drops only empty/non-live entries, swaps, then replaces. The deps-log header is written exactly when the opened file is empty; a path record enters the node table (set_id, nodes_.push_back) only after the checksum and duplicate-id tests passed. RecordDeps calls RecordId only for a node whose id is still negative at the call. A node is created for a path record only where the path left after stripping the padding is known to be non-empty. A failed recompaction fails OpenForWrite; every validated deps record reaches UpdateDeps (the later record wins unconditionally).',
        'not_decided': '"exactly the complete records" for all byte strings; cross-session id consistency as a '
                       'run-time invariant; padding arithmetic values.',
    },
    'C12': {
        'design': '5.12',
        'technique': 'RejectIf guards + error-origin discipline + scope/lookup-order dominance + compile-fail witnesses + partition counters + canonicalise-before-intern and escape-taint provenance over clang CFG facts',
        'decides': 'each documented constraint (duplicate output, unknown rule/pool, duplicate pool/rule, missing '
                   'command, non-reserved rule variable, rspfile pair, pool depth, empty path, no outputs, unknown '
                   'default, unexpected/ERROR token) has a branch whose violating side cannot reach success; every '
                   'failure return forwards a failed callee or follows Lexer::Error and real_main exits 1; include '
                   'uses the including scope, subninja a fresh child, assigned on every path before the sub-parser '
                   'loads; lookup order own bindings -> rule binding (evaluated in the edge env) -> parents, with '
                   '$in/$in_newline/$out first; BindingEnv stores only evaluated strings and Rule only EvalStrings '
                   '(compile-fail), build-level values are evaluated in the enclosing scope and paths in the edge '
                   'scope; input kinds are collected in order with their counters, stored after all AddIn calls and '
                   'kept in sync by later erases; manifest, default, command-line and clean paths are canonicalised '
                   'before interning and no shell-escaped lookup feeds a node identity or file-system call. The std::string overload of CanonicalizePath always delegates to the char* overload (one definition of node identity). Rule::GetBinding answers "no binding" only for a key that is not in the map; the parser of an included / subninja file is constructed with the parent\'s options. Lookup order build, rule, file also for statements without bindings: the shared file scope is consulted only after the rule (D21); every parsed top-level `name = value` is bound before the next statement; the reserved rule variables are the documented eleven, each recognised by a whole-string equality; ParseFileInclude gets new_scope = false on every `include` path and true on every `subninja` path. edge->pool_ is the result of State::LookupPool on that edge\'s own GetBinding("pool").',
        'not_decided': 'that the evaluated graph equals the one defined by the manual for every manifest; the lexer\'s '
                       'token grammar (varname alphabet, $-escapes) beyond the sentinel proof of C13.',
    },
    'C13': {
        'design': '5.13',
        'technique': 'value-set abstract interpretation of the re2c scanners + recursion discipline over the whole-program call graph + interval bounds on file-derived values + null/emptiness discipline, with positive-control fixtures + abstract interpretation of position loops (progress variant) + consuming-call discipline of input-driven loops',
        'decides': 'for every re2c scanner (ReadToken, EatWhitespace, ReadIdent, ReadEvalString, DepfileParser::Parse) no '
                   'byte is read through the cursor after it may have passed the terminating NUL on any path (abstract '
                   'interpretation with the exact yybm tables), the cursor is stored past the NUL only with TEOF, scanner '
                   'inputs are std::string / C strings and nobody scans after TEOF; file-derived indices, counts and read '
                   'sizes in the log loaders are bounded on both sides; every recursion reachable from main has a '
                   'visited-set-before-descent, a structurally decreasing argument or a verified acyclicity entry '
                   'condition (known findings: include cycle, `-t targets depth 0`); nullable results (memchr, getenv, '
                   'fopen, Lookup*, GetDeps, GetBinding) are known non-null at every dereference; begin() of a container is '
                   'dereferenced only where it is known non-empty; std::get on the result variant is guarded by '
                   'holds_alternative. Zero-expected rules are validated by planted controls on every run. A local fixed-size array handed to a call with an explicit length is accessed within its size (interval bounds with return models for read/fread; the would-be length returned by snprintf is not a bound). Loop progress: every loop whose condition compares a local position/pointer with a bound or tests the byte it points at advances that position on every trip (disjunctive abstract interpretation with find/memchr/strpbrk models, nv/loopprog.py; undecided loops are listed), and every input-driven loop (for(;;), while(ReadLine/PeekToken/getopt)) has no way round without a consuming call. The rule-variable cycle flag is armed before the nested evaluation and never disarmed; a NUL-terminated scan never steps over a byte that may be the terminator. The format argument of every printf-like call (libc and ninja\'s own variadic reporters, found as a fixpoint from the v*printf sinks) is program text, never data (one reasoned exemption); unsigned `x - c` positions are guarded by `x >= c`; every loop around fread/read/fgets branches on the read\'s result or ferror(). No throwing conversion (std::stoi family) or at() is used; v[0] / front() / back() of a local container is reached only where it is known non-empty (guard fact, or filled on every path; one reasoned exemption). Byte-wise read loops (fgetc) test for EOF; no in-place loop over Node::out_edges_ reaches Node::AddOutEdge from its body (D23, D24).',
        'not_decided': 'memory safety in general (index arithmetic in ElideMiddle, CanonicalizePath, the in-place de-escaping writes of the depfile parser); termination of the re2c scanner loops beyond the NUL sentinel argument, of worklist / plan loops and of loops listed as undecided.',
    },
    'C16': {
        'design': '5.16',
        'technique': 'who-may-call/provenance of escape modes + exact value-set evaluation of the safe-character predicate + response-file ordering over clang CFG facts',
        'decides': 'kDoNotEscape is used only by the GetUnescaped* accessors, Edge::GetBinding (hence EvaluateCommand, the only '
                   'source of the /bin/sh -c string) uses kShellEscape; $in/$in_newline/$out are fresh MakePathList results per '
                   'lookup (no cache across escape modes), cover exactly the explicit inputs/outputs, and every path is appended '
                   'either through GetShellEscapedString (kShellEscape) or verbatim (kDoNotEscape); the exact set of bytes '
                   'IsKnownShellSafeCharacter accepts (enumerated over its CFG) is within the shell-inert set, names of such bytes '
                   'are appended verbatim once, all others are wrapped in single quotes first-to-last; the response file is '
                   'written in StartEdge with exactly GetBinding("rspfile_content") whenever the rule has one, and removed only '
                   'after success and without -d keeprsp. RealDiskInterface::WriteFile opens truncating, writes the whole string once and succeeds only after fwrite and fclose succeeded. The GetUnescaped* accessors return the looked-up text unchanged (no canonicalisation of a path the command also opens); g_keep_rsp / g_keep_depfile are set only under their own -d names, also through a local reference.',
        'not_decided': 'that /bin/sh reconstructs exactly one word for every name (the quote-escaping sequence needs a shell).',
    },
    'C19': {
        'design': '5.19',
        'technique': 'effect closure over the whole-program call graph (from the kTools table) + dry-run guard facts + post-order dominance + exact value-set evaluation of the JSON encoder',
        'decides': 'none of the read-only tools (resolved from the kTools initialiser) can reach a spawn or a file-system '
                   'write/remove/mkdir/rename/truncate through any call path (planted control validates the closure); under '
                   '-n the dry-run runner is selected, has no effects and reports no active edges, the logs are not opened for '
                   'writing, deps extraction/recording, output stat, restat pruning and the lock file are guarded by !dry_run '
                   '(what stays reachable — mkdir, rspfile write/remove — is listed); command listings print an edge after '
                   'its inputs; the set of bytes EncodeJSONString copies verbatim excludes 0x00-0x1f, quote and backslash, '
                   'compdb printers use constant formats and PrintJSONString, print one object per input and an edge only if '
                   'it has inputs. PrintJSONString writes only bytes that came out of EncodeJSONString; Builder::CleanupEdge (output removal) is called only inside Cleanup\'s loop over the runner\'s active edges or for a command killed by the interrupt, or under !dry_run; the console is locked only outside a dry run (D20).',
        'not_decided': 'that the listing of -n / -t commands equals the set a real build runs; JSON validity for non-UTF-8 bytes.',
    },
    'C20': {
        'design': '5.20',
        'technique': 'who-may-write/call tables + dominance order of print sites + pairing of counters and console lock over clang CFG facts',
        'decides': 'command output is appended to Subprocess::buf_ only by OnPipeReady, taken once before the subprocess is '
                   'deleted, carried in the CommandCompleted result and printed at one of two alternative sites (raw / ANSI '
                   'stripped) only when non-empty; fd 1 and 2 of a non-console child are the same pipe; the FAILED line (all '
                   'outputs, exit code) and the command line precede the output and appear only for failures; '
                   'started/finished/total/running have exactly their documented writers and operators, BuildEdgeStarted '
                   'precedes the spawn and excludes phony edges, every path of FinishCommand reports BuildEdgeFinished '
                   'regardless of the result, plan totals mirror command_edges_ under the same non-phony guard and are '
                   'cleared between builds; the console is locked/unlocked only for console-pool edges (and unconditionally '
                   'unlocked at BuildFinished), nothing is written while locked, held-back output keeps its explicit length '
                   'and is flushed before the buffer is cleared. What is flushed on console unlock is cleared on every path before SetConsoleLocked returns; StripAnsiEscapeCodes walks the whole input in constant steps, copies every non-ESC byte and leaves its loop early only when ESC is the last byte. Only the Subprocess itself writes its pipe descriptor, and it closes the pipe only when read() returned no data. LinePrinter::Print / PrintOrBuffer write or buffer their text on every path; stdout is set to line buffering unconditionally at the start of real_main (C20.O2). For a console-pool edge BuildEdgeStarted reaches the terminal lock whatever the terminal is, and prints the start line whether or not it is a dry run.',
        'not_decided': 'non-interleaving and counter consistency as trace properties over schedules; elision and percentage arithmetic.',
    },
    'C07': {
        'design': '5.7',
        'technique': 'must-pass-through on the interrupt path + full-range/skip-exact cleanup loops + comparison contract + who-may-call (signal handlers) + durability order over clang CFG facts',
        'decides': 'every interrupt branch of Builder::Build runs Cleanup before returning, returns result.exit_status() '
                   '(ExitInterrupted = 130) and starts nothing; Cleanup collects the active edges, aborts the runner first, '
                   'cleans every active edge and also the command that was itself killed by the signal; per edge every output '
                   '(explicit and implicit) is removed unless its mtime is unchanged and always when the rule has a depfile, '
                   'then the depfile, finally the lock file; children are signalled by process group (except console '
                   'children), deleted afterwards, and destroying an unreaped subprocess waits for it; signal handlers make '
                   'no calls and store only to volatile sig_atomic_t; log records are flushed before success / memory '
                   'updates and rewrites go through ReplaceContent. Cleanup covers every started, not yet reaped command (GetActiveEdges is a full-range loop over subproc_to_edge_). ~SubprocessSet restores the signal handlers before the signal mask; an empty depfile is treated like a missing one (edge dirty). Once the runner has erased an edge from subproc_to_edge_ it returns a CommandCompleted naming that edge (also for a command killed by the interrupt).',
        'not_decided': 'a crash at an arbitrary instruction (SIGKILL), which needs the C08/C09 loaders and the dirty logic to '
                       'compose at run time; real-signal timing.',
    },
}

# properties claimed from session 3 on (DESIGN.md 11.9): partial claims through clauses whose truth is in the shape of the code
CLAIMS['C14'] = {
    'design': '11.9 (5.14 as amended)',
    'technique': 'zone (difference-bound) abstract interpretation of CanonicalizePath over the clang CFG facts + whole-program '
                 'canonicalise-before-intern dataflow + table agreement of the identity map (equality / hash / key)',
    'decides': '"never lengthens a path" and the upper side of memory safety of the in-place rewrite: on the fixpoint of a zone '
               'abstract interpretation of CanonicalizePath(char*, size_t*, uint64_t*) every read lies inside [path, path+len), '
               'every write, memchr and memmove ends at or below path+len with a non-negative length, and the length stored back '
               'is at most the length passed in; "two spellings name the same file to ninja" at system level: every call in the '
               'program that turns a string into a node identity (State::GetNode / LookupNode / AddIn / AddOut / AddValidation / '
               'AddDefault) receives a string that passed CanonicalizePath on every path, or its own caller-checked parameter, or a '
               'name read back from a log that ninja wrote from Node::path() (table with reasons, each entry verified); the '
               'std::string overload always delegates to the char* overload with the string\'s own bytes and size and cuts the '
               'string to the reported length; "paths that differ in any other way stay distinct" at system level: State::GetNode / '
               'LookupNode search and store under exactly the string given, table keys compare by length and memcmp over the '
               'whole length and hash the same (pointer, length) pair.',
    'not_decided': 'that CanonicalizePath maps exactly the lexically equal spellings to one string; idempotence; kept leading "/" '
                   'and unresolvable ".."; "." for a path that resolves to nothing (value-level algebra of one pure function); lower '
                   'bounds of the write cursor (they need a content invariant relating component_count to the separators written).',
}
CLAIMS['C15'] = {
    'design': '11.9 (5.15 as amended)',
    'technique': 'RejectIf / guard-fact rules + flag-product reachability (predicate abstraction over the parser\'s boolean flags) + '
                 'zone abstract interpretation of the in-place de-escaping, over the clang CFG facts of the generated parser',
    'decides': 'the two rejection clauses and the bookkeeping clauses of the statement: once a name was collected '
               'DepfileParser::Parse cannot return success unless a target colon was seen (reachability in the product of the CFG '
               'with the two flags), and the colon flag is raised only by a name ending in \':\'; a known prerequisite in target '
               'position always poisons the rule, a new prerequisite of a poisoned rule makes Parse fail, the poison is lifted '
               'exactly at the end of a rule; a name is appended to ins_ / outs_ only when a search of the whole list for that very '
               'name found nothing ("each dependency once"); names are filed into ins_ exactly in dependency position and into outs_ '
               'exactly in target position, the position flips only at a colon-terminated name and back only at a rule-ending '
               'newline, the position of a name is read before its own colon is processed, nothing else writes the lists ("targets '
               'and dependencies kept apart"); both loaders look at the result of Parse, fail when it fails, and consume the whole '
               'ins_ list; on the fixpoint of a zone abstract interpretation of Parse every de-escaping byte write, memset and '
               'memmove ends at or below the read cursor with a non-negative length (text not yet scanned is never overwritten); gap-free de-escaping: replayed path by path through each action, the write cursor moves over bytes only if it does not lag behind the scanned span, moves by nothing, stores through the old position, or a fill / move of that many bytes at the old position came first.',
    'not_decided': 'that every escaped spelling (runs of backslashes before space, #, :, $$, line continuations, CRLF) is read back as '
                   'the name that was written: that is the behaviour of the generated scanner on strings, not a shape of the code.',
}

# clauses added with validation round 7 (DESIGN.md 11.5 / 11.6)
_ROUND7 = {
    'C01': ' The command start time is the floor of the recorded mtime: a zero store to record_mtime reaches RecordCommand only in a dry run or through the store of command_start_time_.',
    'C05': ' The missing-source error is skipped by no condition other than "has a producer", "not dirty" or "created by a dep loader".',
    'C06': ' Every finished edge that was wanted passes Pool::EdgeFinished, and every finished edge passes RetrieveReadyEdges, whatever its kind or result.',
    'C07': ' A record write that is not followed by a dominating fflush before the memory update is reported as a violation (not as a vanished anchor).',
    'C08': ' The Restat selection may be written through flags, composites, std algorithms or a predicate helper: the guard in force at the mtime store must imply "no outputs named" or equality with a named output (justified()).',
    'C09': ' After a successful fread in the record loop the load succeeds only by advancing offset past the record or through Truncate(path, offset).',
    'C10': ' CLParser::IsSystemInclude answers true only where the path contains one of the two documented installation markers (frozen table).',
    'C11': ' In-place canonicalisation through the (char*, size_t*) overload counts only if the new length is the piece\'s own len_ or the string is cut to it before interning.',
    'C12': ' Every name pushed on EdgeEnv::lookups_ is popped on every path to a return of LookupVariable.',
    'C13': ' StringPiece::str_ (a slice without terminator) is handed to no function that reads up to a NUL (libc string / file functions, one-argument std::string operations), with a positive control.',
    'C16': ' The string returned by Edge::EvaluateCommand is only appended to (under incl_rsp_file), never rewritten, also through helpers taking its address; a shell-escaping EdgeEnv may be built anywhere except in the GetUnescaped* accessors.',
    'C18': ' Clean-by-target leaves an input out of the descent only because it was visited already; Cleaner::Remove acts on every path that was not removed already.',
    'C19': ' BuildConfig::dry_run is only ever set (= true, |=, or a store of a value known true at that point).',
    'C20': ' Taking the console lock passes PrintOnNewLine / Print / fflush first on every kind of terminal.',
}
for _k, _v in _ROUND7.items():
    CLAIMS[_k]['decides'] += _v

# clauses added with validation round 8 and the defects found in it (DESIGN.md 11.3 / 11.5)
_ROUND8 = {
    'C01': ' With a build-log entry only a generator rule is declared clean without comparing the command hash. What the first visit of an edge found out about its discovered deps (deps_missing_) is cleared only on a visit that loads them and is consulted on later visits.',
    'C03': ' Plan::CleanNode re-checks every dependent that is wanted, has its deps and has only clean regular inputs - nothing else skips a dependent.',
    'C05': ' While commands are pending Builder::Build returns only after Cleanup(); the result of a fallible call stored in a local is looked at before the local is overwritten or a success value is returned.',
    'C06': ' Every Builder::Build started by NinjaMain (main build and manifest regeneration) is preceded by SetupJobserverClient whose result is handed to that builder.',
    'C07': ' A failed or interrupted manifest regeneration leaves RebuildManifest with the status of its Builder::Build and real_main exits with that status.',
    'C08': ' The close of the rewritten log is tested and its failure does not reach ReplaceContent; ReplaceContent does not fail because the destination is already gone.',
    'C09': ' DepsLog::UpdateDeps installs the record it is given on every path.',
    'C10': ' The range a dep loader reports for the follow-up scan begins at the insertion point (insert() / PreallocateSpace() result or an expression over order_only_deps_).',
    'C12': ' State::RootNodes collects an output exactly when it has no out-edge, over all outputs of all edges (validations are not uses).',
    'C13': ' A position given to substr / erase / insert / replace / compare is not the unchecked result of a find*() (controls in fixtures); a nullable result stays checked across pointer arithmetic.',
    'C18': ' The clean tools reach no file-system mutation except through Cleaner::RemoveFile; a build-log key is dead only if its node has no producer, no consumer and validates nothing (known finding: deps-log-only users are not seen).',
    'C19': ' NinjaMain::build_dir_ is set from the manifest independently of -n and before EnsureBuildDirExists reports success.',
    'C20': ' Only a console command has its output / FAILED header printed without its status line directly before.',
}
for _k, _v in _ROUND8.items():
    CLAIMS[_k]['decides'] += _v

# clauses added in session 4: coverage-driven rules, validation round 10 and the defects found in it (DESIGN.md 11.10)
_ROUND10 = {
    'C01': ' RealDiskInterface::Stat answers "missing" (0) only for ENOENT / ENOTDIR, -1 with a message for every other failure, and keeps the nanoseconds of st_mtim.',
    'C02': ' A remembered build-log entry (the cache object that answers later calls without looking again) is handed to the check of one output only: it is selected by the loop variable that selects the output.',
    'C04': ' Inside the plan, EdgeFinished(edge, kEdgeSucceeded) for an edge that did not run is reached only behind Edge::AllInputsReady().',
    'C05': ' From waitpid() to the builder: TryFinish waits for its own pid, answers "alive" only for a 0 result, stores ParseExitStatus of the very status waitpid filled in; exit_status_ has no other writer; Finish() blocks; Done() is "reaped" for console children and "pipe closed" for the others (truth table); NextFinished() returns null or the front element and pops when the queue is not empty. ParseExitStatus(exited with code c) evaluates to c for every c in 0..255.',
    'C06': ' The POSIX jobserver client: an explicit slot only from a read() of exactly one byte and carrying that byte, the implicit slot only while its flag is set (cleared on that path), Release writes the slot\'s own byte for every valid explicit slot (EINTR retried) and sets the flag for the implicit one, the fifo is opened O_NONBLOCK. RealCommandRunner::Abort stops the commands before it returns their tokens.',
    'C07': ' SIGINT/SIGTERM/SIGHUP are, each of them, blocked, handled by the flag-setting handler, looked for among the pending signals (and then consumed), restored at the end and recognised in a child\'s wait status (decided by evaluating ParseExitStatus for every "killed by signal s" status); the flag is cleared only before the wait, which runs under the saved mask. Subprocess::Start gives a piped child its own process group and every child the saved signal mask, only ever adds flag bits, and closes the parent\'s copy of the write end after the spawn.',
    'C11': ' A dyndep entry is applied to its edge once per load (an edge that lists the file several times among its inputs is updated once). Nothing is accepted from a dyndep file before ParseDyndepVersion ran (must-pass, not a flag).',
    'C12': ' EvalString: Evaluate walks the whole token list, appends RAW text verbatim and the environment\'s value for every other token; AddText keeps its text on every path; AddSpecial moves pending single-token text into the list before the variable.',
    'C13': ' Unsigned position arithmetic also through a local (`size_t first = col - 36; s.substr(first, ..)`), through a decrement (`--pos` later used as a subscript) and through int / size_t mixes.',
    'C14': ' A name that is compared with node paths / build-log keys instead of being interned is canonical too: every output a depfile names before it is matched, the arguments of `-t restat` before BuildLog::Restat.',
    'C17': ' State::Reset() restores "never scanned" for every node (mtime_, exists_, dirty_) and edge (outputs_ready_, deps_loaded_, mark_) over the whole of paths_ / edges_. The driver of the scan does not walk its validation worklist up to a size taken before the loop while the loop body extends it.',
    'C19': ' In real_main no tool dispatch is reachable from NinjaMain::RebuildManifest / RunBuild within one pass of the start-up loop.',
    'C20': ' For a failed command nothing but the QUIET verbosity keeps BuildEdgeFinished from printing the FAILED line and the command line. The pipe handed to a command as stdout/stderr is created blocking. The output is printed at sites that are alternatives, from text derived from the `output` parameter alone.',
}
for _k, _v in _ROUND10.items():
    CLAIMS[_k]['decides'] += _v
