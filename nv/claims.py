"""What each registered check decides (feeds MANIFEST.json via gen_manifest.py)."""
CLAIMS = {
    'C05': {
        'design': '5.5',
        'technique': 'guard-fact dataflow + who-may-write + path-sensitive error discipline over clang CFG facts',
        'decides': 'success bookkeeping (outputs_ready_, --wanted_edges_, want_.erase, dyndep load, '
                   'NodeFinished) and build/deps-log records are reachable only under a succeeded result; '
                   'EdgeFinished call sites pass a result consistent with their guard; exit-code plumbing '
                   'from the failed command to exit(); failure-budget guards (decrement only on failure and '
                   'only while non-zero, starts guarded, reaping not guarded); wait-status decoding guarded '
                   'by WIFEXITED; missing-source error guard and its precedence over Builder::Build; no '
                   'failure edge of a fallible call reaches a success return in build.cc / ninja.cc.',
        'not_decided': 'which commands may legitimately start after a failure under a given schedule.',
    },
}
