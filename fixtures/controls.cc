// Positive controls for rules whose expected violation count on ninja is zero.  Each function
// contains exactly one planted violation; the corresponding rule must fire on it on every run
// (otherwise the check ends as analysis-broken).  Never linked, never executed.
#include <stdio.h>
#include <stdlib.h>
#include <string.h>
#include <vector>
#include <cstdarg>
#include <cstdio>
#include <string>

namespace nvctl {

// --- VS control: a scanner that consumes the terminating NUL and keeps reading -------------
int BadScanner(const char* start) {
  const char* p = start;
  int n = 0;
  for (;;) {
    unsigned char yych;
    yych = *p;
    if (yych == 'a') goto yy1;
    goto yy2;
yy1:
    ++p;
    ++n;
    continue;
yy2:
    ++p;            // advances even when yych == 0 ...
    if (n > 100) break;
    continue;       // ... and reads *p again in the next iteration
  }
  return n;
}

// --- VS control (negative): the same scanner stops at NUL ------------------------------------
int GoodScanner(const char* start) {
  const char* p = start;
  int n = 0;
  for (;;) {
    unsigned char yych;
    yych = *p;
    if (yych == 'a') goto yy1;
    if (yych <= 0x00) goto yy3;
    goto yy2;
yy1:
    ++p;
    ++n;
    continue;
yy2:
    ++p;
    continue;
yy3:
    break;
  }
  return n;
}

// --- M1 control: recursion over a possibly cyclic structure with no visited set ------------
struct N { std::vector<N*> next; int v; };
int UnguardedWalk(N* n) {
  int s = n->v;
  for (size_t i = 0; i < n->next.size(); ++i)
    s += UnguardedWalk(n->next[i]);
  return s;
}

// --- TB control: a file-derived index used without any bound ---------------------------------
int UncheckedIndex(FILE* f, int* table) {
  int id;
  if (fread(&id, sizeof(id), 1, f) < 1)
    return -1;
  return table[id];
}

// --- TB control (negative) ------------------------------------------------------------------------
int CheckedIndex(FILE* f, int* table, int n) {
  int id;
  if (fread(&id, sizeof(id), 1, f) < 1)
    return -1;
  if (id < 0 || id >= n)
    return -1;
  return table[id];
}

// --- EF control: a "read-only" entry point that removes a file ----------------------------------
void Helper(const char* p) { remove(p); }
int ReadOnlyTool(const char* p) { Helper(p); return 0; }

// --- N1 control: a nullable result used unchecked ------------------------------------------------
size_t UncheckedMemchr(const char* s, size_t n) {
  const char* e = static_cast<const char*>(memchr(s, '\t', n));
  return e - s;
}

// --- TB2 control: the would-be length returned by snprintf used as the real one ---------------
size_t UnboundedFormattedLength(char* out, const char* name) {
  char buf[64];
  int len = snprintf(buf, sizeof(buf), "%s", name);
  if (len < 0)
    return 0;
  memcpy(out, buf, len);
  return len;
}

// --- TB2 control (negative): the number of bytes actually read bounds the copy --------------
size_t BoundedReadLength(FILE* f, char* out) {
  char buf[64];
  size_t len = fread(buf, 1, sizeof(buf), f);
  memcpy(out, buf, len);
  return len;
}

// --- L1 control: a line loop that does not step over a lone '\r' -------------------------------
size_t StuckLineLoop(const std::string& text) {
  size_t lines = 0;
  size_t start = 0;
  while (start < text.size()) {
    size_t end = text.find_first_of("\r\n", start);
    if (end == std::string::npos)
      end = text.size();
    ++lines;
    if (end + 1 < text.size() && text[end] == '\r' && text[end + 1] == '\n')
      end += 2;
    else if (end < text.size() && text[end] == '\n')
      ++end;
    start = end;
  }
  return lines;
}

// --- L1 control (negative): every terminator byte is stepped over ---------------------------
size_t GoodLineLoop(const std::string& text) {
  size_t lines = 0;
  size_t start = 0;
  while (start < text.size()) {
    size_t end = text.find_first_of("\r\n", start);
    if (end == std::string::npos)
      end = text.size();
    ++lines;
    if (end < text.size() && text[end] == '\r')
      ++end;
    if (end < text.size() && text[end] == '\n')
      ++end;
    start = end;
  }
  return lines;
}

// --- L1 control: an input-driven loop with a way round that reads nothing -------------------
int SkipsRead(FILE* f) {
  int n = 0;
  for (;;) {
    if (n & 1) {
      ++n;
      continue;
    }
    int c = fgetc(f);
    if (c == EOF)
      break;
    ++n;
  }
  return n;
}

// --- TB3 control: `pos - 3` used as a position although pos may be 1 or 2 -------------------------
std::string UnderflowingPosition(std::string text, const std::string& name) {
  size_t pos = text.find(name);
  if (pos == 0 || pos == std::string::npos || text.find("-f ") != pos - 3)
    return text;
  text.replace(pos - 3, name.size() + 3, "");
  return text;
}

// --- TB3 control (negative) ------------------------------------------------------------------------
std::string GuardedPosition(std::string text, const std::string& name) {
  size_t pos = text.find(name);
  if (pos == std::string::npos || pos < 3 || text.compare(pos - 3, 3, "-f ") != 0)
    return text;
  text.replace(pos - 3, name.size() + 3, "");
  return text;
}

// --- TB3 controls: a position counted down / computed into a local before it is used ------------------
char CountedDownPosition(const std::string& text, size_t start) {
  size_t pos = start;
  while ((static_cast<unsigned char>(text[pos]) & 0xC0) == 0x80)
    --pos;                                  // nothing keeps pos from passing 0
  return text[pos];
}

char CountedDownGuarded(const std::string& text, size_t start) {
  size_t pos = start;
  while (pos > 0 && (static_cast<unsigned char>(text[pos]) & 0xC0) == 0x80)
    --pos;
  return text[pos];
}

std::string WindowThroughLocal(const std::string& text, int col) {
  const size_t kWidth = 72;
  if (col <= 0 || text.size() <= kWidth)
    return text;
  size_t first = col - kWidth / 2;          // wraps for col < 36
  return text.substr(first, kWidth);
}

// --- FMT control: text that came from a file used as a printf format ---------------------------------
void Report(const char* msg, ...) {
  va_list ap;
  va_start(ap, msg);
  vfprintf(stderr, msg, ap);
  va_end(ap);
}

void DataAsFormat(const std::string& line_from_file) {
  std::string message = "bad line: " + line_from_file;
  Report(message.c_str());
}

// --- FMT control (negative): the data is an argument of a literal format ----------------------------
void DataAsArgument(const std::string& line_from_file, bool verbose) {
  const char* format = verbose ? "bad line: %s (ignored)\n" : "bad line: %s\n";
  Report(format, line_from_file.c_str());
  Report("bad line: %s\n", line_from_file.c_str());
}

// --- read-loop control: a loop that only asks feof() spins forever on a read error -----------------
size_t SlurpIgnoringErrors(FILE* f, char* out, size_t cap) {
  size_t size = 0;
  while (!feof(f)) {
    size += fread(out + size, 1, cap - size, f);
  }
  return size;
}

// --- read-loop control (negative) -------------------------------------------------------------------
size_t SlurpUntilShortRead(FILE* f, char* out, size_t cap) {
  size_t size = 0;
  size_t len;
  while (!feof(f) && (len = fread(out + size, 1, cap - size, f)) > 0) {
    size += len;
  }
  return size;
}

// --- E1 control: a conversion that throws on text that is not a number --------------------------------
int ThrowingConversion(const std::string& field_from_file) {
  return std::stoi(field_from_file);
}

// --- E1 control: substr() at a position that a search reported (npos when nothing was found: out_of_range) ----
std::string SubstrOfFind(const std::string& line) {
  return line.substr(line.find_first_not_of(' '));
}
std::string SubstrOfFindChecked(const std::string& line) {
  size_t p = line.find_first_not_of(' ');
  if (p == std::string::npos)
    return "";
  return line.substr(p);
}

// --- V1 control: a slice without terminator handed to a function that reads up to a NUL ---------------
struct StringPiece { const char* str_; size_t len_; };
bool UnterminatedSlice(StringPiece word) {
  return strchr(word.str_, 'n') != NULL;
}

}  // namespace nvctl
